"""C08 — recordings and inputs land on the right row, compartment and time step.

Model checking over *request histories*: every sequence of record/stimulate/clamp requests (alphabet of
14) up to the depth bound is replayed on a fresh real 3-cell network with three synapses of two types
(in every type order), integrate() is called, and the whole output matrix is compared with a reference
built **from the request log** (never from the module's tables).
"""
from __future__ import annotations

import copy
import itertools

import numpy as np

from vf import build, canon, refsim, vals
from vf.runner import digest

ID = "C08"
LEVEL = "model_checking"
RULE = (
    "BFS over all request histories (alphabet: 7 record requests incl. channel current, synaptic state/current; 3 stimulate requests "
    "incl. two impulses on one compartment and a 2-compartment stimulus; 4 clamp requests incl. gate and synaptic state) to depth 1 on all "
    "three synapse-type orders x {t_max None, shorter, longer} x {stored, data_* fed} and depth 2 (quick) / 3 (thorough) on the order "
    "(I,T,I); each history is replayed on a real network and integrate's full output matrix is compared with the request-log reference; "
    "every ordered pair (thorough: triple, with a further input afterwards) of same-kind input requests followed by delete_stimuli / "
    "delete_clamps through a view that removes part of them (the survivors must keep acting on their own targets); "
    "a state is the canonical (recordings, externals) of the module; plus step_current vs its sample-wise definition on dyadic grids"
)
REQUIRED_COVER = ["deleted_through_view_with_survivors", "stored_and_data_inputs_mixed", "edge_index_ne_rank_within_type", "two_stimuli_one_compartment", "compartments_with_different_area", "tmax_longer",
                  "tmax_shorter", "data_fed", "duplicate_record_dropped", "clamp_gate", "clamp_synaptic_state", "record_synaptic_state",
                  "record_channel_current", "step_current"]
ASSUMPTIONS = [
    "a recorded channel/synaptic *current* may follow either the pre-solve or the post-solve voltage convention (weaker reading)",
    "reference simulator mirrors the documented staggering (DESIGN §5 S1/S2)",
    "t_max longer than a clamp is allowed to be refused (NotImplementedError)",
]
DT = 0.025
T = 4
TOL = 1e-8

CELLS = [([-1, 0], [2, 1]), ([-1], [2]), ([-1, 0, 0], [2, 1, 1])]
# edges as ((cell,branch,comp) pre, post)
EDGES = [((0, 0, 0), (1, 0, 1)), ((0, 1, 0), (2, 2, 0)), ((2, 0, 0), (1, 0, 1))]
ORDERS = {"IIT": "IIT", "ITI": "ITI", "TII": "TII"}
TYPE_NAME = {"I": "IonotropicSynapse", "T": "TestSynapse"}

VIEWS = {
    "A": [(1, 0, 0)],
    "B": [(0, 0, 0), (0, 0, 1), (0, 1, 0)],
    "C": [(2, 2, 0)],
    "D": [(2, 0, 0), (2, 0, 1)],
    "D0": [(2, 0, 0)],
    "B1": [(0, 0, 1)],
}


def _gidx(c, b, k):
    off = 0
    for ci, (ps, ns) in enumerate(CELLS):
        if ci == c:
            return off + sum(ns[:b]) + k
        off += sum(ns)
    raise ValueError


def _view(net, name):
    if name == "A":
        return net.cell(1).branch(0).comp(0)
    if name == "B":
        return net.cell(0)
    if name == "C":
        return net.cell(2).branch(2).comp(0)
    if name == "D":
        return net.cell(2).branch(0)
    if name == "D0":
        return net.cell(2).branch(0).comp(0)
    if name == "B1":
        return net.cell(0).branch(0).comp(1)
    t, r = name[1], int(name[2])  # "EI1" -> rank 1 of Ionotropic
    return getattr(net, TYPE_NAME[t]).edge(r)


def _edge_of(order, name):
    """Creation index of the edge named e.g. EI1 (rank 1 within type I) under the type order."""
    t, r = name[1], int(name[2])
    pos = [i for i, x in enumerate(order) if x == t]
    return pos[r]


def _imp(k, amp=0.8):
    a = np.zeros(T)
    a[k] = amp
    return a


REQUESTS = [
    {"op": "record", "state": "v", "view": "A"},
    {"op": "record", "state": "v", "view": "B"},
    {"op": "record", "state": "HH_m", "view": "A"},
    {"op": "record", "state": "i_HH", "view": "C"},
    {"op": "record", "state": "IonotropicSynapse_s", "view": "EI1"},
    {"op": "record", "state": "i_IonotropicSynapse", "view": "EI0"},
    {"op": "record", "state": "TestSynapse_c", "view": "ET0"},
    {"op": "stim", "view": "A", "series": [_imp(0).tolist()]},
    {"op": "stim", "view": "A", "series": [_imp(2, -0.5).tolist()]},
    {"op": "stim", "view": "D", "series": [_imp(1, 0.6).tolist(), (0.2 * np.ones(T)).tolist()]},
    {"op": "clamp", "state": "v", "view": "C", "series": [(-61.0 + 1.5 * np.arange(T)).tolist()]},
    {"op": "clamp", "state": "HH_n", "view": "A", "series": [(0.3 + 0.1 * (np.arange(T) % 2)).tolist()]},
    {"op": "clamp", "state": "IonotropicSynapse_s", "view": "EI1", "series": [(0.9 - 0.2 * np.arange(T)).tolist()]},
    {"op": "clamp", "state": "v", "view": "B", "series": [(-66.0 - 0.5 * np.arange(T)).tolist()]},
]

# deletions through views (stored inputs only): what survives must keep acting on its own target
DELETES = [
    {"op": "delstim", "view": "D0"},
    {"op": "delstim", "view": "A"},
    {"op": "delclamp", "view": "C", "state": None},
    {"op": "delclamp", "view": "B1", "state": "v"},
    {"op": "delclamp", "view": "A", "state": "HH_n"},
]

_cache = {}


def _base(order):
    if order not in _cache:
        J = build.jx()
        from jaxley.channels import HH
        from jaxley.connect import connect
        from jaxley.synapses import IonotropicSynapse, TestSynapse

        net = J.Network([build.cell_of(p, n) for p, n in CELLS])
        n = len(net.nodes)
        val = vals.valuation(n, 3)
        for key in ["radius", "length", "axial_resistivity", "capacitance"]:
            net.set(key, np.asarray(val[key]))
        net.insert(HH())
        net.set("v", -71.0 + 8.0 * vals.table("i", n, 4))
        f = vals.table("i", n, 6)
        net.set("HH_m", 0.3 + 0.4 * (f + 0.5))
        net.set("HH_h", 0.2 + 0.5 * (0.5 - f))
        net.set("HH_n", 0.25 + 0.3 * (f + 0.5))
        for (pre, post), t in zip(EDGES, order):
            syn = IonotropicSynapse() if t == "I" else TestSynapse()
            connect(net.cell(pre[0]).branch(pre[1]).comp(pre[2]), net.cell(post[0]).branch(post[1]).comp(post[2]), syn)
        # per-edge parameters (request: by creation index)
        for gi, t in enumerate(order):
            ev = _edge_params(gi, t)
            v = net.select(edges=[gi])
            for k, x in ev.items():
                v.set(k, x)
        model = refsim.model_from_module(net)
        model["synapses"] = []  # the reference wiring comes from the request description, not from .edges
        for gi, ((pre, post), t) in enumerate(zip(EDGES, order)):
            ev = _edge_params(gi, t)
            nm = TYPE_NAME[t]
            st = {k: v for k, v in ev.items() if k in (f"{nm}_s", f"{nm}_c")}
            pa = {k: v for k, v in ev.items() if k not in st}
            model["synapses"].append({"type": nm, "name": nm, "pre": _gidx(*pre), "post": _gidx(*post), "params": pa, "states": st})
        _cache[order] = (net, model)
    return _cache[order]


def _edge_params(gi, t):
    u = 0.2 + 0.3 * gi
    if t == "I":
        return {"IonotropicSynapse_gS": 3e-4 + 4e-4 * u, "IonotropicSynapse_e_syn": -20.0 * u, "IonotropicSynapse_k_minus": 0.05 + 0.1 * u,
                "IonotropicSynapse_s": 0.2 + 0.6 * u}
    return {"TestSynapse_gC": 2e-4 + 5e-4 * u, "TestSynapse_c": 0.8 - 0.5 * u}


def _apply(net, req, data_acc=None):
    """Apply one request through the public API. data_acc: dict collecting data_* inputs instead of stored ones."""
    import jax.numpy as jnp

    v = _view(net, req["view"])
    if req["op"] == "record":
        v.record(req["state"], verbose=False)
        return
    if req["op"] == "delstim":
        v.delete_stimuli()
        return
    if req["op"] == "delclamp":
        v.delete_clamps(req["state"]) if req["state"] else v.delete_clamps()
        return
    arr = jnp.asarray(np.asarray(req["series"]))
    arr = arr[0] if arr.shape[0] == 1 else arr
    if req["op"] == "stim":
        if data_acc is not None:
            data_acc["stim"] = v.data_stimulate(arr, data_acc.get("stim"))
        else:
            v.stimulate(arr, verbose=False)
        return
    if req["op"] == "clamp":
        if data_acc is not None and (data_acc.get("clamp") is None or data_acc["clamp"][0] == req["state"]):
            data_acc["clamp"] = v.data_clamp(req["state"], arr, data_acc.get("clamp"))
        else:
            v.clamp(req["state"], arr, verbose=False)
        return
    raise ValueError(req["op"])


def _expected(order, hist, nsteps):
    """Reference output matrix (two conventions for currents) from the request log."""
    net, model = _base(order)
    model = copy.deepcopy(model)
    rows = []
    for req in hist:
        if req["op"] == "record":
            if req["view"].startswith("E"):
                targets = [("edge", _edge_of(order, req["view"]))]
            else:
                targets = [("comp", _gidx(*c)) for c in VIEWS[req["view"]]]
            for tg in targets:
                key = (req["state"],) + tg
                if key not in rows:
                    rows.append(key)
        elif req["op"] == "stim":
            comps = [_gidx(*c) for c in VIEWS[req["view"]]]
            ser = np.asarray(req["series"])
            for j, c in enumerate(comps):
                model["stimuli"].append({"comp": c, "current": ser[j if ser.shape[0] > 1 else 0]})
        elif req["op"] == "clamp":
            ser = np.asarray(req["series"])
            if req["view"].startswith("E"):
                idxs = [_edge_of(order, req["view"])]
            else:
                idxs = [_gidx(*c) for c in VIEWS[req["view"]]]
            for j, i in enumerate(idxs):
                model["clamps"].append({"state": req["state"], "index": i, "values": ser[j if ser.shape[0] > 1 else 0]})
        elif req["op"] == "delstim":
            gone = {_gidx(*c) for c in VIEWS[req["view"]]}
            model["stimuli"] = [s_ for s_ in model["stimuli"] if s_["comp"] not in gone]
        elif req["op"] == "delclamp":
            gone = {_gidx(*c) for c in VIEWS[req["view"]]}
            model["clamps"] = [c_ for c_ in model["clamps"] if not (c_["index"] in gone and not c_["state"].startswith(("IonotropicSynapse", "TestSynapse"))
                                                                    and (req["state"] is None or c_["state"] == req["state"]))]
    # truncate / pad inputs to nsteps
    for s in model["stimuli"]:
        cu = np.asarray(s["current"], float)
        s["current"] = np.concatenate([cu, np.zeros(max(0, nsteps - len(cu)))])[:nsteps]
    for c in model["clamps"]:
        c["values"] = np.asarray(c["values"], float)[:nsteps]
    out = refsim.simulate(model, DT, nsteps)
    pre, post = [], []
    for (state, kind, idx) in rows:
        if kind == "comp":
            tr = out[state][:, idx]
            if state.startswith("i_"):
                alt = _post_solve_membrane_current(model, out, state, idx)
            else:
                alt = tr
        else:
            if state.startswith("i_"):
                tr = out["syn_currents"][idx]
                alt = _post_solve_syn_current(model, out, idx)
            else:
                tr = out["syn_states"][idx][state]
                alt = tr
        pre.append(tr)
        post.append(alt)
    return np.asarray(pre), np.asarray(post), rows


def _post_solve_membrane_current(model, out, name, idx):
    n = out["v"].shape[0]
    res = np.zeros(n)
    for k in range(n):
        tot = 0.0
        for ch in model["channels"]:
            if refsim.current_name(ch["type"], ch["name"]) != name or idx not in ch["comps"]:
                continue
            p = {kk: np.asarray(a, float)[idx] for kk, a in ch["params"].items()}
            s = {kk: out[kk][k, idx] for kk in ch["states"]}
            tot += refsim.chan_current(ch["type"], ch["name"], out["v"][k, idx], s, p)
        res[k] = tot
    return res


def _post_solve_syn_current(model, out, j):
    sy = model["synapses"][j]
    n = out["v"].shape[0]
    res = np.zeros(n)
    for k in range(n):
        st = {kk: out["syn_states"][j][kk][k] for kk in sy["states"]}
        res[k] = refsim.syn_current(sy["type"], sy["name"], out["v"][k, sy["pre"]], out["v"][k, sy["post"]], st, sy["params"])
    return res


def _features(order, hist):
    f = {}
    edge_reqs = [r for r in hist if r["view"].startswith("E")]
    f["edge_state"] = bool(edge_reqs)
    f["edge_index_ne_rank"] = any(_edge_of(order, r["view"]) != int(r["view"][2]) for r in edge_reqs)
    f["ops"] = "+".join(sorted(set(r["op"] for r in hist)))
    return f


def run_history(order, hist, tmax_mode="none", data=False, backend="jaxley.stone"):
    import jaxley as jx

    out = {"violations": [], "cover": [], "refusals": [], "digests": [], "evals": 1, "transitions": len(hist) + 1}
    base, _ = _base(order)
    net = copy.deepcopy(base)
    feats = _features(order, hist)
    wit = {"order": order, "history": hist, "tmax": tmax_mode, "data": data, "backend": backend}

    def viol(rule, msg, **extra):
        sig = {"rule": rule, "edge_state": feats["edge_state"], "edge_index_ne_rank": feats["edge_index_ne_rank"], "tmax": tmax_mode,
               "data_fed": data}
        sig.update(extra)
        out["violations"].append({"sig": sig, "witness": wit, "msg": msg})

    data_acc = {} if data else None
    try:
        n_inputs = 0
        for req in hist:
            if data == "mixed" and req["op"] in ("stim", "clamp"):
                # first input request stored on the module, the next one fed at integrate time, and so on
                _apply(net, req, data_acc if n_inputs % 2 == 1 else None)
                n_inputs += 1
            else:
                _apply(net, req, data_acc)
        # every history ends with the same suffix request: record v everywhere (keeps integrate callable; exercises dedup)
        net.record("v", verbose=False)
    except Exception as e:
        viol("request_raised", f"{type(e).__name__}: {str(e)[:200]}")
        return out
    full = hist + [{"op": "record", "state": "v", "view": "ALL"}]
    has_inputs = any(r["op"] in ("stim", "clamp") for r in hist)
    has_clamp = any(r["op"] == "clamp" for r in hist)
    if any(r["op"].startswith("del") for r in hist):
        has_inputs = bool(net.externals)
        has_clamp = any(k != "i" for k in net.externals)
        if sum(len(np.asarray(v)) for v in net.external_inds.values()) >= 2:
            out["cover"].append("deleted_through_view_with_survivors")
    if tmax_mode == "none":
        if not has_inputs:
            kw, nsteps = {"t_max": (T - 1) * DT + DT / 2}, T
        else:
            kw, nsteps = {}, T
    elif tmax_mode == "shorter":
        kw, nsteps = {"t_max": 1 * DT + DT / 2}, 2
    else:
        kw, nsteps = {"t_max": (T + 1) * DT + DT / 2}, T + 2
    if data_acc:
        if data_acc.get("stim") is not None:
            kw["data_stimuli"] = data_acc["stim"]
        if data_acc.get("clamp") is not None:
            kw["data_clamps"] = data_acc["clamp"]
    try:
        got = np.asarray(jx.integrate(net, delta_t=DT, voltage_solver=backend, **kw))
    except NotImplementedError as e:
        if tmax_mode == "longer" and has_clamp:
            out["refusals"].append("tmax_longer_with_clamp:NotImplementedError")
            return out
        viol("integrate_raised", f"NotImplementedError: {e}")
        return out
    except Exception as e:
        viol("integrate_raised", f"{type(e).__name__}: {str(e)[:200]}")
        return out
    # expected
    VIEWS["ALL"] = [(c, b, k) for c, (ps, ns) in enumerate(CELLS) for b, nb in enumerate(ns) for k in range(nb)]
    pre, post, rows = _expected(order, full, nsteps)
    if got.shape != pre.shape:
        viol("output_shape", f"got {got.shape}, expected {pre.shape} (rows {len(rows)}, steps {nsteps})")
        return out
    for r, key in enumerate(rows):
        e1 = float(np.max(np.abs(got[r] - pre[r]) / (1 + np.abs(pre[r]))))
        e2 = float(np.max(np.abs(got[r] - post[r]) / (1 + np.abs(post[r]))))
        err = min(e1, e2)
        if not np.isfinite(err) or err > TOL:
            kind = "edge" if key[1] == "edge" else "comp"
            cls = "current" if key[0].startswith("i_") else ("v" if key[0] == "v" else "state")
            viol("row_value", f"row {r} {key}: max rel err {err}; got {got[r].tolist()} want {pre[r].tolist()}", row_kind=kind, row_class=cls)
            break
    out["digests"].append(digest([order, digest(hist), tmax_mode, data, digest(np.round(pre, 8).tolist())]))
    snap = canon.snapshot(net)
    out["state_hash"] = canon.hash_of({"recordings": snap["recordings"], "externals": snap["externals"], "external_inds": snap["external_inds"]})
    # coverage
    if feats["edge_index_ne_rank"]:
        out["cover"].append("edge_index_ne_rank_within_type")
    stim_targets = [tuple(c) for r in hist if r["op"] == "stim" for c in VIEWS[r["view"]]]
    if len(stim_targets) != len(set(stim_targets)):
        out["cover"].append("two_stimuli_one_compartment")
    if any(r["op"] == "stim" and r["view"] == "D" for r in hist):
        out["cover"].append("compartments_with_different_area")
    if tmax_mode == "longer":
        out["cover"].append("tmax_longer")
    if tmax_mode == "shorter":
        out["cover"].append("tmax_shorter")
    if data and data_acc:
        out["cover"].append("data_fed")
    if data == "mixed" and data_acc and any(k != "i" or True for k in net.externals):
        out["cover"].append("stored_and_data_inputs_mixed")
    nreq_rows = sum(len(VIEWS[r["view"]]) if not r["view"].startswith("E") else 1 for r in full if r["op"] == "record")
    if nreq_rows > len(rows):
        out["cover"].append("duplicate_record_dropped")
    for r in hist:
        if r["op"] == "clamp" and r["state"] == "HH_n":
            out["cover"].append("clamp_gate")
        if r["op"] == "clamp" and r["view"].startswith("E"):
            out["cover"].append("clamp_synaptic_state")
        if r["op"] == "record" and r["view"].startswith("E") and not r["state"].startswith("i_"):
            out["cover"].append("record_synaptic_state")
        if r["op"] == "record" and r["state"] == "i_HH":
            out["cover"].append("record_channel_current")
    return out


def step_current_item():
    from jaxley.stimulus import datapoint_to_step_currents, step_current

    out = {"violations": [], "cover": ["step_current"], "refusals": [], "digests": [], "evals": 0}
    for dt in (2.0**-5, 2.0**-3):
        for d_steps, dur_steps, tmax_steps in itertools.product((0, 1, 3), (1, 2, 5), (4, 8)):
            delay, dur, t_max = d_steps * dt, dur_steps * dt, tmax_steps * dt
            for amp, off in ((0.7, 0.0), (-0.3, 0.1)):
                out["evals"] += 1
                got = np.asarray(step_current(delay, dur, amp, dt, t_max, off))
                n = tmax_steps + 2
                want = np.full(n, off)
                for k in range(n):
                    if delay <= k * dt < delay + dur:
                        want[k] = amp
                wit = {"part": "step_current", "dt": dt, "delay": delay, "dur": dur, "t_max": t_max, "amp": amp, "off": off}
                if got.shape != want.shape or np.max(np.abs(got - want)) > 1e-15:
                    out["violations"].append({"sig": {"rule": "step_current_definition"}, "witness": wit, "msg": f"got {got.tolist()} want {want.tolist()}"})
                got2 = np.asarray(datapoint_to_step_currents(delay, dur, np.asarray([amp, 2 * amp]), dt, t_max, off))
                if got2.shape != (2, n) or np.max(np.abs(got2[0] - want)) > 1e-15:
                    out["violations"].append({"sig": {"rule": "datapoint_to_step_currents_definition"}, "witness": wit, "msg": f"got {got2.tolist()}"})
                out["digests"].append(digest(wit))
    return out


def work(item):
    if item.get("part") == "step_current":
        return step_current_item()
    res = {"violations": [], "cover": [], "refusals": [], "digests": [], "evals": 0, "transitions": 0, "state_hashes": []}
    for h in item["runs"]:
        r = run_history(h["order"], h["history"], h["tmax"], h["data"], h["backend"])
        for k in ("violations", "cover", "refusals", "digests"):
            res[k] += r[k]
        res["evals"] += r["evals"]
        res["transitions"] += r["transitions"]
        if "state_hash" in r:
            res["state_hashes"].append(r["state_hash"])
    res["sample"] = item["runs"][0]
    return res


def explore(ctx):
    runs = []
    for order in ORDERS:
        runs.append({"order": order, "history": [], "tmax": "none", "data": False, "backend": "jaxley.stone"})
        for req in REQUESTS:
            for tm in ("none", "shorter", "longer"):
                runs.append({"order": order, "history": [req], "tmax": tm, "data": False, "backend": "jaxley.stone"})
            if req["op"] in ("stim", "clamp"):
                runs.append({"order": order, "history": [req], "tmax": "none", "data": True, "backend": "jaxley.stone"})
            runs.append({"order": order, "history": [req], "tmax": "none", "data": False, "backend": "jax.sparse"})
    depth = 2 if ctx.tier == "quick" else 3
    for L in range(2, depth + 1):
        for hist in itertools.product(range(len(REQUESTS)), repeat=L):
            h = [REQUESTS[i] for i in hist]
            data = (sum(hist) % 2 == 1) and any(r["op"] in ("stim", "clamp") for r in h)
            runs.append({"order": "ITI", "history": h, "tmax": "none", "data": data, "backend": "jaxley.stone"})
    # stored + data-fed inputs in one call: every ordered pair of input requests, first stored, second data-fed
    inputs = [r for r in REQUESTS if r["op"] in ("stim", "clamp")]
    for a in inputs:
        for b in inputs:
            runs.append({"order": "ITI", "history": [a, b], "tmax": "none", "data": "mixed", "backend": "jaxley.stone"})
    # inputs, then a deletion through a view, (then another input): ordered pairs of same-kind input requests + one deletion
    stims = [r for r in REQUESTS if r["op"] == "stim"]
    clamps = [r for r in REQUESTS if r["op"] == "clamp"]
    for kind, reqs in (("delstim", stims), ("delclamp", clamps)):
        for a in reqs:
            for b in reqs:
                if a is b:
                    continue
                for d in DELETES:
                    if d["op"] != kind:
                        continue
                    runs.append({"order": "ITI", "history": [a, b, d], "tmax": "none", "data": False, "backend": "jaxley.stone"})
        if ctx.tier != "quick":
            for a, b, c in itertools.permutations(reqs, 3):
                for d in DELETES:
                    if d["op"] == kind:
                        runs.append({"order": "ITI", "history": [a, b, d, c], "tmax": "none", "data": False, "backend": "jaxley.stone"})
    ctx.note("alphabet", len(REQUESTS))
    ctx.note("depth", depth)
    ctx.note("runs", len(runs))
    chunk = 5
    items = [{"runs": runs[i:i + chunk]} for i in range(0, len(runs), chunk)]
    items.append({"part": "step_current"})
    res = ctx.map("work", items)
    hashes = set()
    for _, r in res:
        for h in (r or {}).get("state_hashes", []):
            hashes.add(h)
    ctx.states = len(hashes)


def replay(w):
    if w.get("part") == "step_current":
        return step_current_item()["violations"]
    return run_history(w["order"], w["history"], w["tmax"], w["data"], w["backend"])["violations"]
