"""C03 -- gates stay finite, in [0,1], and follow the exact exponential update.

Bounded-exhaustive: every mechanism x kinetic parameter setting x EVERY voltage of the alphabet (dyadic lattice over
[-200, 200] containing each singular voltage exactly, every float64/float32 within +-64 ulp of every special point;
thorough: all float32 of the interval) x dt alphabet x state alphabet, through the REAL `update_states`, vectorised,
in float64 (all rules) and float32 (qualitative rules), judged against reference kinetics typed from the publications.
"""
from __future__ import annotations

import numpy as np

from vf import kinlattice as kl
from vf import refkin
from vf.runner import digest

ID = "C03"
LEVEL = "exploration"
RULE = (
    "enumerate every built-in mechanism (HH, Na, K, Km, CaL, CaT, Leak, IonotropicSynapse, TestSynapse) x every kinetic "
    "parameter setting (vt, taumax, vx, k_minus alphabets) x every voltage of the alphabet (dyadic lattice over [-200,200] "
    "with step 2^-4 quick / 2^-10 thorough, every float64 and float32 within +-64 ulp of every singular voltage, exp-clip "
    "threshold and interval end; thorough: all 2.26e9 float32 of the interval) x dt {1e-3,.025,.1,1,10,1e3} x state "
    "{0,2^-20,.2,.5,1-2^-20,1}; one real update_states per element (float64: all rules; float32: qualitative rules); a "
    "case class is distinct = (mechanism, gate, parameter setting, dtype, dt, state, regime bucket) and non-trivial if "
    "the gate moved by more than 1e-12 somewhere in the bucket"
)
REQUIRED_COVER = [
    "singular_voltage_exact",
    "singular_voltage_ulp_neighbourhood",
    "tau_to_zero_regime",
    "tau_to_inf_regime",
    "state_at_0_and_1",
    "float32_qualitative",
    "solver_gate_direct",
] + [f"mech:{m}" for m in refkin.C03_MECHS]
ASSUMPTIONS = [
    "float64 voltages between lattice points are visited only within 64 ulp of special points (DESIGN section 4); the "
    "rate expressions are smooth between special points",
    "'in [0,1]' and 'never past the steady state' are read up to rounding: 1e-12 (float64) / 2e-6 (float32) outside "
    "[0,1], and 1e-8 (float64) / 1e-4 (float32) past the reference steady state -- the implementation evaluates "
    "x_inf = alpha*(1/(alpha+beta)), which may exceed 1 by an ulp",
    "the steady state and time constant that define 'the closed-form solution' are those of the published equations "
    "(vf.refkin) with 0/0 singularities filled by their limits; far-tail effects of jaxley's exp clip at 20 change the "
    "update by < 2e-9 and are inside the 1e-8 tolerance (not flagged)",
    "float32 runs are judged only on finite / in [0,1] / between old state and x_inf",
    "thorough float32 sweep uses the reduced alphabets dt {.025,1,1e3} x state {0,1} (the update is affine in the state)",
    "synapses: post-synaptic voltage is set equal to the presynaptic one (it does not enter the state update)",
]

LO, HI = -200.0, 200.0
TOL_CLOSED = 1e-8
TOL = {
    "float64": {"range": 1e-12, "between": 1e-8, "band": kl.BAND64},
    "float32": {"range": 2e-6, "between": 1e-4, "band": kl.BAND32},
}
SWEEP_DTS = [0.025, 1.0, 1e3]
SWEEP_STATES = [0.0, 1.0]
SUB = 1 << 21  # sub-block of the float32 sweep


# ----------------------------------------------------------------------------- enumeration
SOLVER_RATES = [1e-9, 1e-6, 1e-3, 0.025, 1.0, 40.0, 1e3, 1e6, 1e9]  # alpha, beta (1/ms) and tau (ms) alphabet


def _items(tier):
    items = [{"kind": "solver", "dtype": d} for d in ("float64", "float32")]
    for mech in refkin.C03_MECHS:
        for ip, p in enumerate(refkin.psets(mech)):
            for dtype in ("float64", "float32"):
                items.append({"kind": "alphabet", "mech": mech, "p": p, "dtype": dtype, "tier": tier})
    if tier == "thorough":
        blocks = kl.float32_blocks(LO, HI, 24)
        for mech in refkin.C03_MECHS:
            if not refkin.MECHS[mech]["gates"]:
                continue
            for p in refkin.psets(mech):
                for first, count in blocks:
                    items.append({"kind": "sweep", "mech": mech, "p": p, "first": first, "count": count})
    return items


def explore(ctx):
    items = _items(ctx.tier)
    ctx.note("items", len(items))
    ctx.note("voltage_interval", [LO, HI])
    ctx.note("lattice_step", f"2^-{kl.log2step(ctx.tier)}")
    ctx.note("dt_alphabet", kl.DT_ALPHABET)
    ctx.note("state_alphabet", kl.STATE_ALPHABET)
    ctx.note("parameter_alphabets", refkin.KIN_ALPHABET)
    ctx.note("tolerances", {"closed_form": TOL_CLOSED, **TOL})
    if ctx.tier == "thorough":
        ctx.note("float32_sweep", {"blocks_of_2^24": len(kl.float32_blocks(LO, HI, 24)), "dts": SWEEP_DTS,
                                   "states": SWEEP_STATES, "dtypes": ["float32 (qualitative)", "float64 (all rules)"]})
    ctx.map("work", items)


# ----------------------------------------------------------------------------- core: run + judge
def run_and_judge(mech, p, v, dtype, dts, states, out, max_wit=2, want_digests=True, ref_xp=None):
    """Run the real update on every (v, state) for every dt and judge all rules.  `v` has dtype `dtype`.
    Appends to out[...]; returns nothing."""
    gates = refkin.MECHS[mech]["gates"]
    inst = kl.instance(mech)
    prefix = inst._name
    skeys = refkin.state_keys(mech, prefix)
    tol = TOL[dtype]
    N, S = len(v), len(states)
    npd = np.float64 if dtype == "float64" else np.float32
    vv = np.tile(np.asarray(v, dtype=npd), S)
    xx = np.repeat(np.asarray(states, dtype=npd), N)
    params = kl.full_params(mech, prefix, p, N * S, npd)
    v64 = np.asarray(v, dtype=np.float64)
    x64 = np.asarray(states, dtype=np.float64)[:, None]  # the float32 state values widened exactly
    if dtype == "float32":
        x64 = np.asarray(states, dtype=np.float32).astype(np.float64)[:, None]

    if not gates:  # Leak: no state, update must return no state
        try:
            got = kl.run_update(inst, {}, dts[0], vv[:1], {k: a[:1] for k, a in params.items()}, jit=False)
        except Exception as e:
            out["violations"].append(_viol("raises", mech, "", dtype, "ordinary", p, v64[0], dts[0], 0.0,
                                           f"{type(e).__name__}: {e}"[:200], exc=type(e).__name__))
            return
        out["evals"] += 1
        if got != {}:
            out["violations"].append(_viol("stateless_update_returns_state", mech, "", dtype, "ordinary", p, v64[0],
                                           dts[0], 0.0, f"returned keys {sorted(got)}"))
        else:
            out["digests"].append(digest([mech, "stateless"]))
        out["cover"].append(f"mech:{mech}")
        return

    ref = {}
    with np.errstate(all="ignore"):
        for g in gates:
            if ref_xp is not None:
                xi, tau = ref_xp(mech, g, v64, p)
            else:
                xi, tau = refkin.inf_tau(mech, g, v64, p)
            ref[g] = (np.asarray(xi), np.asarray(tau), kl.regimes(mech, g, v64, p, tol["band"]))
    sing = refkin.singular_voltages(mech, p)
    for g, vs_list in sing.items():
        for vs in vs_list:
            if np.any(v64 == vs):
                out["cover"].append("singular_voltage_exact")
            sp = float(np.spacing(npd(abs(vs)))) * 65
            n_below = int(np.sum((v64 < vs) & (v64 >= vs - sp)))
            n_above = int(np.sum((v64 > vs) & (v64 <= vs + sp)))
            if n_below >= 32 and n_above >= 32:
                out["cover"].append("singular_voltage_ulp_neighbourhood")
    if 0.0 in states and 1.0 in states:
        out["cover"].append("state_at_0_and_1")
    if dtype == "float32":
        out["cover"].append("float32_qualitative")

    for dt in dts:
        try:
            got = kl.run_update(inst, {k: xx for k in skeys.values()}, dt, vv, params)
        except Exception as e:  # the property promises a value for every input
            out["violations"].append(_viol("raises", mech, "", dtype, "ordinary", p, v64[0], dt, float(states[0]),
                                           f"{type(e).__name__}: {e}"[:200], exc=type(e).__name__))
            continue
        out["evals"] += N * S * len(gates)
        for g in gates:
            new = np.asarray(got[skeys[g]]).astype(np.float64).reshape(S, N)
            xi, tau, reg = ref[g]
            with np.errstate(all="ignore"):
                r = dt / tau
                e = np.exp(-r)
                want = xi[None, :] + (x64 - xi[None, :]) * e[None, :]
            if np.any(r > 700):
                out["cover"].append("tau_to_zero_regime")
            if np.any(r < 1e-5):
                out["cover"].append("tau_to_inf_regime")
            fin = np.isfinite(new)
            bad = {"finite": ~fin}
            newz = np.where(fin, new, 0.5)
            bad["in_unit_interval"] = fin & ((newz < -tol["range"]) | (newz > 1 + tol["range"]))
            lo_ = np.minimum(x64, xi[None, :]) - tol["between"]
            hi_ = np.maximum(x64, xi[None, :]) + tol["between"]
            bad["toward_never_past"] = fin & ((newz < lo_) | (newz > hi_))
            err = np.abs(newz - want)
            if dtype == "float64":
                bad["closed_form"] = fin & ~(err <= TOL_CLOSED)
            for rule, mask in bad.items():
                if not mask.any():
                    continue
                for rg in np.unique(reg[np.nonzero(mask.any(axis=0))[0]]):
                    m = mask & (reg == rg)[None, :]
                    cnt = int(m.sum())
                    idx = np.argwhere(m)
                    # witnesses: the first one and the one with the largest deviation
                    e_m = np.where(m, np.where(np.isfinite(err), err, np.inf), -1.0)
                    pick = [tuple(idx[0]), np.unravel_index(int(np.argmax(e_m)), e_m.shape)]
                    seen = set()
                    for (si, vi) in pick[:max_wit]:
                        if (si, vi) in seen:
                            continue
                        seen.add((si, vi))
                        out["violations"].append(_viol(
                            rule, mech, g, dtype, kl.REGIME_NAMES[int(rg)], p, v64[vi], dt, float(x64[si, 0]),
                            f"new={float(new[si, vi])!r} expected={float(want[si, vi])!r} x_inf={float(xi[vi])!r} tau={float(tau[vi])!r} "
                            f"({cnt} of {m.size} elements of this item fail this rule in this regime)"))
            if want_digests:
                moved = np.abs(newz - x64) > 1e-12
                for rg in np.unique(reg):
                    sel = reg == rg
                    for si in range(S):
                        if moved[si, sel].any():
                            out["digests"].append(digest([mech, g, p, dtype, dt, float(x64[si, 0]), int(rg)]))
    out["cover"].append(f"mech:{mech}")


def _viol(rule, mech, gate, dtype, regime, p, v, dt, state, msg, exc=None):
    sig = {"rule": rule, "mech": mech, "gate": gate, "dtype": dtype, "regime": regime}
    if exc:
        sig["exc"] = exc
    wit = {"mech": mech, "p": p, "gate": gate, "dtype": dtype, "v": kl.fnum(v), "dt": dt, "state": state}
    return {"sig": sig, "witness": wit,
            "msg": f"{mech}.{gate} v={float(v)!r} p={p} dt={dt} state={state} {dtype}: {rule} violated; {msg}"}


def _new_out():
    return {"evals": 0, "digests": [], "cover": [], "refusals": [], "violations": []}


_JREF = {}


def _jax_ref(mech, g, v64, p):
    """float64 reference evaluated with jax.numpy (same equations, vf.refkin) -- only for speed in the sweep."""
    import jax
    import jax.numpy as jnp

    key = (mech, g, tuple(sorted(p.items())))
    if key not in _JREF:
        _JREF[key] = jax.jit(lambda v: refkin.inf_tau(mech, g, v, p, jnp))
    xi, tau = _JREF[key](jnp.asarray(v64))
    return np.asarray(xi), np.asarray(tau)


_FAST = {}


def _fast_count(mech, p, v, dtype):
    """Number of (gate, dt, state, voltage) elements of the sweep alphabets that fail ANY rule -- one fused jitted
    kernel (real update_states + jnp reference + all rules with the same tolerances).  Only a filter: sub-blocks with
    a non-zero count are re-run through `run_and_judge`, which produces the witnesses."""
    import jax
    import jax.numpy as jnp

    key = (mech, tuple(sorted(p.items())), dtype)
    if key not in _FAST:
        inst = kl.instance(mech)
        prefix = inst._name
        gates = refkin.MECHS[mech]["gates"]
        skeys = refkin.state_keys(mech, prefix)
        vals = refkin.defaults(mech)
        vals.update(p)
        pkeys = refkin.param_keys(mech, prefix)
        tol = TOL[dtype]
        syn = kl.is_synapse(mech)

        def f(v):
            v64 = v.astype(jnp.float64)
            ref = {g: refkin.inf_tau(mech, g, v64, p, jnp) for g in gates}
            params = {pkeys[k]: jnp.full_like(v, val) for k, val in vals.items()}
            nbad = jnp.zeros((), jnp.int64)
            for dt in SWEEP_DTS:
                for x in SWEEP_STATES:
                    st = {k: jnp.full_like(v, x) for k in skeys.values()}
                    got = inst.update_states(st, dt, v, v, params) if syn else inst.update_states(st, dt, v, params)
                    for g in gates:
                        new = got[skeys[g]].astype(jnp.float64)
                        xi, tau = ref[g]
                        want = xi + (x - xi) * jnp.exp(-dt / tau)
                        ok = jnp.isfinite(new) & (new >= -tol["range"]) & (new <= 1 + tol["range"])
                        ok &= (new >= jnp.minimum(x, xi) - tol["between"]) & (new <= jnp.maximum(x, xi) + tol["between"])
                        if dtype == "float64":
                            ok &= jnp.abs(new - want) <= TOL_CLOSED
                        nbad += jnp.sum(~ok)
            return nbad

        _FAST[key] = jax.jit(f)
    return int(_FAST[key](jnp.asarray(v)))


def solver_direct(dtype, out, only=None):
    """The three exponential-Euler entry points of jaxley.solver_gate on the full product of the state, dt, x_inf and
    rate/time-constant alphabets (the integrator itself, independent of any rate function)."""
    import itertools

    import jax.numpy as jnp
    from jaxley import solver_gate as sg

    npd = np.float64 if dtype == "float64" else np.float32
    tol = TOL[dtype]
    X = np.asarray(kl.STATE_ALPHABET, dtype=npd)
    R = np.asarray(SOLVER_RATES, dtype=npd)
    cases = {}
    x, xi, tau = [a.ravel() for a in np.meshgrid(X, X, R, indexing="ij")]
    cases["exponential_euler"] = (x, xi.astype(np.float64), tau.astype(np.float64), lambda dt: sg.exponential_euler(
        jnp.asarray(x), dt, jnp.asarray(xi), jnp.asarray(tau)))
    cases["solve_inf_gate_exponential"] = (x, xi.astype(np.float64), tau.astype(np.float64), lambda dt: sg.solve_inf_gate_exponential(
        jnp.asarray(x), dt, jnp.asarray(xi), jnp.asarray(tau)))
    x2, a, b = [q.ravel() for q in np.meshgrid(X, R, R, indexing="ij")]
    a64, b64 = a.astype(np.float64), b.astype(np.float64)
    cases["solve_gate_exponential"] = (x2, a64 / (a64 + b64), 1.0 / (a64 + b64), lambda dt: sg.solve_gate_exponential(
        jnp.asarray(x2), dt, jnp.asarray(a), jnp.asarray(b)))
    for fn, (x0, xinf, tau_, call) in cases.items():
        if only and only["gate"] != fn:
            continue
        x64 = x0.astype(np.float64)
        for dt in kl.DT_ALPHABET:
            try:
                new = np.asarray(call(dt)).astype(np.float64)
            except Exception as e:
                out["violations"].append(_viol("raises", "solver_gate", fn, dtype, "ordinary", {}, 0.0, dt, 0.0,
                                               f"{type(e).__name__}: {e}"[:200], exc=type(e).__name__))
                continue
            out["evals"] += len(x0)
            with np.errstate(all="ignore"):
                want = xinf + (x64 - xinf) * np.exp(-dt / tau_)
            fin = np.isfinite(new)
            nz = np.where(fin, new, 0.5)
            err = np.abs(nz - want)
            bad = {"finite": ~fin,
                   "in_unit_interval": fin & ((nz < -tol["range"]) | (nz > 1 + tol["range"])),
                   "toward_never_past": fin & ((nz < np.minimum(x64, xinf) - tol["between"]) | (nz > np.maximum(x64, xinf) + tol["between"]))}
            if dtype == "float64":
                bad["closed_form"] = fin & ~(err <= TOL_CLOSED)
            for rule, m in bad.items():
                if m.any():
                    i = int(np.nonzero(m)[0][0])
                    v_ = _viol(rule, "solver_gate", fn, dtype, "ordinary", {}, 0.0, dt, float(x64[i]),
                               f"x_inf={float(xinf[i])!r} tau={float(tau_[i])!r} new={float(new[i])!r} expected={float(want[i])!r} "
                               f"({int(m.sum())} of {m.size} elements)")
                    v_["witness"] = {"kind": "solver", "dtype": dtype, "gate": fn}
                    out["violations"].append(v_)
            if np.any(np.abs(nz - x64) > 1e-12):
                out["digests"].append(digest(["solver_gate", fn, dtype, dt]))
    out["cover"].append("solver_gate_direct")


def work(item):
    out = _new_out()
    if item["kind"] == "solver":
        solver_direct(item["dtype"], out)
        return out
    mech, p = item["mech"], item["p"]
    if item["kind"] == "alphabet":
        dtype = item["dtype"]
        if dtype == "float64":
            v = kl.voltages64(mech, p, LO, HI, item["tier"])
        else:
            v = kl.voltages32(mech, p, LO, HI, item["tier"])
        run_and_judge(mech, p, v, dtype, kl.DT_ALPHABET, kl.STATE_ALPHABET, out)
        out["sample"] = {"mech": mech, "p": p, "dtype": dtype, "n_voltages": int(len(v)),
                         "special_points": kl.special_points(mech, p, LO, HI)}
    else:  # all float32 values of one block, float32 arithmetic (qualitative) and float64 arithmetic (all rules)
        first, count = item["first"], item["count"]
        k = 0
        while k < count:
            n = min(SUB, count - k)
            v32 = kl.float32_block_values(first + k, n)
            if n < SUB:  # keep one jit shape: pad the last sub-block with its last value
                v32 = np.concatenate([v32, np.full(SUB - n, v32[-1], np.float32)])
            for dtype, vv in (("float32", v32), ("float64", v32.astype(np.float64))):
                try:
                    nbad = _fast_count(mech, p, vv, dtype)
                except Exception:
                    nbad = -1
                if nbad != 0:
                    run_and_judge(mech, p, vv[:n], dtype, SWEEP_DTS, SWEEP_STATES, out, want_digests=False,
                                  ref_xp=_jax_ref)
                    out["cover"].append("sweep_subblock_rejudged")
                else:
                    out["evals"] += n * len(SWEEP_DTS) * len(SWEEP_STATES) * len(refkin.MECHS[mech]["gates"])
            k += n
        out["digests"].append(digest([mech, p, "sweep", first, count]))
        out["cover"].append("float32_full_sweep_block")
    out["cover"] = sorted(set(out["cover"]))
    out["digests"] = sorted(set(out["digests"]))
    out["violations"] = _thin(out["violations"])
    return out


def _thin(viols, per_sig=3):
    """Keep at most `per_sig` witnesses per signature and item (the count is in the message)."""
    seen = {}
    keep = []
    for v in viols:
        k = tuple(sorted(v["sig"].items()))
        seen[k] = seen.get(k, 0) + 1
        if seen[k] <= per_sig:
            keep.append(v)
    return keep


def replay(w):
    out = _new_out()
    if w.get("kind") == "solver":
        solver_direct(w["dtype"], out, only=w)
        return out["violations"]
    npd = np.float64 if w["dtype"] == "float64" else np.float32
    v = np.asarray([w["v"]], dtype=npd)
    run_and_judge(w["mech"], w["p"], v, w["dtype"], [w["dt"]], [w["state"]], out, want_digests=False)
    return [x for x in out["violations"] if x["witness"]["gate"] == w["gate"]]
