"""C17 — parameter transforms are bounded, monotone bijections; ParamTransform routes each transform to its own leaf.

Bounded-exhaustive: every transform configuration of the alphabet x every point of a special-point lattice
(vf.lattice) is pushed through the REAL jaxley.optimize.transforms objects (vectorised), and judged against an
independent numpy specification (mathematical sigmoid / softplus, their derivatives and stable inverses):

  (a) forward(x) finite and inside the closed declared bounds,
  (b) forward monotone across consecutive lattice points,
  (c) inverse(forward(x)) = x and forward(inverse(y)) = y within the conditioning-aware tolerance of DESIGN §5,
  (d) ParamTransform applies each transform to exactly its own leaf, eager == jit, inverse(forward(p)) == p.

The same oracle is run in every item on a numerically stable reference implementation of the same API
(logaddexp softplus, z + log(-expm1(-z)), logistic / log-log1p logit): if THAT produced a violation the
oracle would be unsatisfiable -> harness error (no-false-alarm guard).
"""
from __future__ import annotations

import itertools
import math

import numpy as np

from vf import lattice as L
from vf.runner import digest

ID = "C17"
LEVEL = "exploration"
RULE = (
    "enumerate every transform configuration {Sigmoid, Softplus, NegSoftplus, Affine, Custom} x bounds "
    "{(0,1),(-3,5),(1e-4,1e3)} (one-sided transforms take each end point), every ordered pair of them as a "
    "ChainTransform, every mask over a 3-vector as MaskedTransform of each of them; for each configuration every "
    "point of a special-point lattice on [-1e6,1e6] (dyadic core, octave lattice, every float64 and float32 within "
    "+-k ulp of 0, +-20, the clip thresholds of inner stages and the saturation points; thorough: also ALL float32 "
    "in [-100,100]) in float64 (all oracles) and float32 (finite/bounds/monotone), plus a lattice of y inside the "
    "open range for forward(inverse(y)); ParamTransform: every assignment of 7 transform types to the leaves of 3 "
    "pytree shapes x value tables, eager and jit; the same for 3 layouts in which one key occurs in two or three entries "
    "(what get_parameters() returns after several make_trainable calls on one parameter; routing judged per entry "
    "POSITION) and for the plain-array + single-Transform call form; forward/inverse of every single, chain and 1 in 8 masked configurations "
    "on writable numpy arrays, twice on the same array (caller's array untouched, repeatable, equal to the jax-array route), and ParamTransform "
    "over two entries sharing one numpy leaf. An outcome is distinct if its (configuration, pass, regime bucket, "
    "outcome class) is new; ParamTransform outcomes are distinct by (shape, assignment, values, rounded result)"
)
REQUIRED_COVER = [
    "x_at_clip_threshold",
    "x_beyond_clip",
    "saturated_skipped",
    "y_space_round_trip",
    "chain",
    "masked",
    "masked_identity_column",
    "custom",
    "param_transform_jit",
    "param_transform_routing_distinguishable",
    "param_transform_duplicate_keys",
    "param_transform_plain_array",
    "float32_qualitative",
    "oracle_satisfiable_by_stable_reference",
    "numpy_route",
    "numpy_leaf_shared_by_two_entries",
    "float64_after_lower_precision_call",
]
ASSUMPTIONS = [
    "round-off reading of 'within the declared bounds': a bound b may be exceeded by at most 4 ulp(b) of the working "
    "dtype (lower + (upper-lower)*1 need not equal upper in floating point); a bound equal to 0 is therefore exact",
    "round-off reading of 'monotone': forward may decrease between consecutive lattice points by at most 8x the "
    "forward round-off budget (sum over stages of ulp(max(|value|,|declared constants|)) x downstream derivative); "
    "constant stretches (saturation) are accepted as non-decreasing",
    "round trips use DESIGN §5: tol = K ulp(f(x))/|f'(x)| + K ulp(x), K=256, with the specification's derivative; "
    "ulp(f(x)) is taken at max(|f(x)|, |lower bound or shift|) because the value passes through lower + width*y (for the "
    "harness-defined algebraic sigmoid, whose 1+r cancels, at max(|f(x)|, |both bounds|)); for a "
    "chain the terms of all stages are summed with the chain rule; points with tol > 0.1 (1+|x|) are skipped "
    "('wherever the inverse is representable'); forward(inverse(y)) uses the mirrored rule in y",
    "XLA's CPU code flushes subnormal numbers to zero, so every ulp in the tolerances is floored at the smallest normal "
    "number of the dtype (a correct implementation cannot resolve softplus(-720) = 2e-313)",
    "signature field 'regime' only LABELS where a violating point lies (beyond_exp_clip: some exp argument of the stage "
    "formulas >= 20 - 2^-10, judged on the specification's AND the implementation's stage inputs; softplus_tail: "
    "softplus value < 2^-6 where log(exp(z)-1) cancels; ordinary: everything else); no regime is exempt from any rule",
    "NegSoftplusTransform(upper) is specified by its docstring: bijection onto (-inf, upper], i.e. upper - softplus(-x)",
    "AffineTransform is used as (scale, shift) = (upper-lower, lower) plus one negative scale (-2, 0.5); a negative "
    "scale must be monotone decreasing; CustomTransform is exercised with two user function pairs "
    "(shift+scale*arcsinh, algebraic sigmoid); chains use positive-scale stages only",
    "float64 points between lattice points are not visited except near special points; |x| > 1e6 is outside the "
    "stated interval; float32 is judged only qualitatively (finite, bounds, monotone)",
    "eager-vs-jit 'identically' is read as equal to 16 ulp (XLA may fuse differently); bitwise equality is counted "
    "as a coverage predicate",
    "ParamTransform values are taken from [-3,3] so that routing is judged in the regime where the individual "
    "transforms are exact; routing is judged bit-for-bit against the leaf's own transform object",
]

K_RT = 256.0  # round-trip tolerance factor (DESIGN §5)
M_MONO = 8.0  # monotonicity slack factor (forward round-off budgets)
S_BND = 4.0  # bound slack in ulp of the bound
CLIP = 20.0  # save_exp clip (only used to LABEL regimes, never to excuse anything)
CLIP_MARGIN = 2.0 ** -10
TAIL_Z = 2.0 ** -6  # softplus value below which log(exp(z)-1) style cancellation is the suspected cause

BOUNDS = [(0.0, 1.0), (-3.0, 5.0), (1e-4, 1e3)]
REGIMES = ["ordinary", "softplus_tail", "beyond_exp_clip"]


# ============================================================================= specification (numpy, float64)
def _sg(u):
    e = np.exp(-np.abs(u))
    return np.where(u >= 0, 1.0 / (1.0 + e), e / (1.0 + e))


def _sp(u):
    return np.logaddexp(u, 0.0)


def _spinv(z):
    return np.where(z > 0, z + np.log(-np.expm1(-z)), np.where(z == 0, -np.inf, np.nan))


class Stage:
    """Mathematical specification of one basic transform (increasing unless affine with negative scale)."""

    def __init__(self, d):
        self.d = d
        k = d["kind"]
        self.kind = k
        self.sign = 1.0
        if k == "sigmoid":
            self.a, self.b = float(d["lo"]), float(d["hi"])
            self.lo, self.hi = self.a, self.b
            # lower + width*s: the rounding error is one ulp of max(|lower|, |width*s|, |result|) <= 2 max(|lower|, |result|); the
            # upper bound only matters where the result is close to it (then |result| ~ |upper| anyway).  With lower == 0 the
            # forward value keeps its RELATIVE precision down to the smallest normal number, so the inverse is representable
            # (and demanded) in the whole lower tail (seeded change S51).
            self.magb = abs(self.a)
            self.lip = (self.b - self.a) / 4
        elif k == "softplus":
            self.a = float(d["lo"])
            self.lo, self.hi = self.a, np.inf
            self.magb = abs(self.a)
            self.lip = 1.0
        elif k == "negsoftplus":
            self.b = float(d["hi"])
            self.lo, self.hi = -np.inf, self.b
            self.magb = abs(self.b)
            self.lip = 1.0
        elif k == "affine":
            self.s, self.t = float(d["scale"]), float(d["shift"])
            self.lo, self.hi = -np.inf, np.inf
            self.magb = abs(self.t)
            self.lip = abs(self.s)
            self.sign = 1.0 if self.s > 0 else -1.0
        elif k == "custom" and d["fn"] == "asinh":
            self.s, self.t = 2.0, 0.5
            self.lo, self.hi = -np.inf, np.inf
            self.magb = abs(self.t)
            self.lip = self.s
        elif k == "custom" and d["fn"] == "alg":
            self.a, self.b = float(d["lo"]), float(d["hi"])
            self.lo, self.hi = self.a, self.b
            self.magb = max(abs(self.a), abs(self.b))
            self.lip = (self.b - self.a) / 2
        else:
            raise ValueError(d)

    # -- spec forward / derivative / inverse
    def f(self, u):
        k = self.kind
        if k == "sigmoid":
            return np.clip(self.a + (self.b - self.a) * _sg(u), self.a, self.b)
        if k == "softplus":
            return _sp(u) + self.a
        if k == "negsoftplus":
            return self.b - _sp(-u)
        if k == "affine":
            return self.s * u + self.t
        if self.d["fn"] == "asinh":
            return self.t + self.s * np.arcsinh(u)
        r = np.where(np.isinf(u), np.sign(u), u / np.sqrt(1.0 + u * u))
        return np.clip(self.a + (self.b - self.a) * 0.5 * (1.0 + r), self.a, self.b)

    def df(self, u):
        k = self.kind
        if k == "sigmoid":
            return (self.b - self.a) * _sg(u) * _sg(-u)
        if k == "softplus":
            return _sg(u)
        if k == "negsoftplus":
            return _sg(-u)
        if k == "affine":
            return np.full_like(u, self.s)
        if self.d["fn"] == "asinh":
            return self.s / np.sqrt(1.0 + u * u)
        return (self.b - self.a) * 0.5 * (1.0 + u * u) ** -1.5

    def inv(self, y):
        k = self.kind
        if k == "sigmoid":
            v = (y - self.a) / (self.b - self.a)
            return np.where((v > 0) & (v < 1), np.log(v) - np.log1p(-v), np.nan)
        if k == "softplus":
            return _spinv(y - self.a)
        if k == "negsoftplus":
            return -_spinv(self.b - y)
        if k == "affine":
            return (y - self.t) / self.s
        if self.d["fn"] == "asinh":
            return np.sinh((y - self.t) / self.s)
        t = 2.0 * (y - self.a) / (self.b - self.a) - 1.0
        return np.where(np.abs(t) < 1, t / np.sqrt((1.0 - t) * (1.0 + t)), np.nan)

    def mag(self, fu):
        return np.maximum(np.abs(fu), self.magb)

    # -- regime labels (where jaxley's present formulas hit the save_exp clip / the exp(z)-1 cancellation).
    # softplus(u) >= c  <=>  u >= softplus^-1(c), so both labels are plain thresholds on the stage input.
    def clip_mask(self, u):
        if self.kind == "sigmoid":  # save_exp(-u)
            return -u >= CLIP - CLIP_MARGIN
        if self.kind == "softplus":  # save_exp(u) in forward, save_exp(softplus(u)) in inverse
            return u >= _U_CLIP
        if self.kind == "negsoftplus":
            return -u >= _U_CLIP
        return np.zeros(np.shape(u), bool)

    def tail_mask(self, u):
        if self.kind == "softplus":  # softplus(u) < TAIL_Z
            return u < _U_TAIL
        if self.kind == "negsoftplus":
            return -u < _U_TAIL
        return np.zeros(np.shape(u), bool)


_U_CLIP = float(_spinv(np.array(CLIP - CLIP_MARGIN)))
_U_TAIL = float(_spinv(np.array(TAIL_Z)))


def _ulp(v, dt):
    """ulp with flush-to-zero floor: XLA's CPU code flushes subnormals, so the absolute resolution of any
    computed quantity is never finer than the smallest normal number of the dtype."""
    return np.maximum(L.ulp(v, dt), float(np.finfo(dt).tiny))


def stages_of(desc):
    if desc["kind"] == "chain":
        return [Stage(s) for s in desc["stages"]]
    if desc["kind"] == "masked":
        return stages_of(desc["inner"])
    return [Stage(desc)]


def chain_forward(stages, x):
    """Returns (us, ds): us[i] input of stage i (us[-1] = output), ds[i] = derivative of stage i at us[i]."""
    us, ds = [x], []
    for st in stages:
        ds.append(st.df(us[-1]))
        us.append(st.f(us[-1]))
    return us, ds


def chain_inverse(stages, y):
    for st in reversed(stages):
        y = st.inv(y)
    return y


def chain_sign(stages):
    s = 1.0
    for st in stages:
        s *= st.sign
    return s


def chain_range(stages, dt):
    """Closed declared range [Lo, Hi] of the composition and the round-off slack allowed at each end."""
    lo, hi = -np.inf, np.inf
    slo, shi = 0.0, 0.0
    for st in stages:
        with np.errstate(all="ignore"):
            a, b = float(st.f(np.array([lo]))[0]), float(st.f(np.array([hi]))[0])
        sa, sb = slo * st.lip, shi * st.lip
        if st.sign < 0:
            a, b, sa, sb = b, a, sb, sa
        lo, hi = a, b
        slo = sa + (S_BND * float(L.ulp(lo, dt)) if np.isfinite(lo) else 0.0)
        shi = sb + (S_BND * float(L.ulp(hi, dt)) if np.isfinite(hi) else 0.0)
    return lo, hi, slo, shi


def budgets(stages, us, ds, dt):
    """inv_budget: sum_i ulp(mag_i)/|d u_i / d x|  (error of x caused by one ulp at every stage output);
    fwd_budget: sum_i ulp(mag_i) * |d y / d u_i|  (error of y caused by one ulp at every stage output);
    dydx: total derivative."""
    n = len(stages)
    ul = [_ulp(stages[i].mag(us[i + 1]), dt) for i in range(n)]
    up = np.ones_like(us[0])
    inv_b = np.zeros_like(us[0])
    for i in range(n):
        up = up * ds[i]
        inv_b = inv_b + ul[i] / np.abs(up)
    down = np.ones_like(us[0])
    fwd_b = np.zeros_like(us[0])
    for i in reversed(range(n)):
        fwd_b = fwd_b + ul[i] * np.abs(down)
        down = down * ds[i]
    return inv_b, fwd_b, up


def regimes(stages, us, mids=None):
    """Per point: code 0 ordinary / 1 softplus_tail / 2 beyond_exp_clip, and the index of the responsible stage.
    Labels only (they go into the signature, they excuse nothing).  `us` are the specification's stage inputs;
    `mids` (optional) the implementation's own stage inputs: a point is labelled with the more extreme of the two,
    so that a defect of an earlier stage which shifts a later stage into the clip is not reported as 'ordinary'."""
    n = len(stages)
    shape = us[0].shape
    if n == 0:
        return np.zeros(shape, dtype=np.int8), np.full(shape, -1, dtype=np.int8)

    def one(inputs):
        code = np.zeros(shape, dtype=np.int8)
        who = np.full(shape, -1, dtype=np.int8)
        with np.errstate(all="ignore"):
            for i in reversed(range(n)):  # earlier stages win ties
                t = stages[i].tail_mask(inputs[i]) & (code < 2)
                code[t] = 1
                who[t] = i
            for i in reversed(range(n)):
                c = stages[i].clip_mask(inputs[i])
                code[c] = 2
                who[c] = i
        return code, who

    code, who = one(us)
    if mids is not None:
        code2, who2 = one(mids)
        upd = code2 > code
        code = np.where(upd, code2, code)
        who = np.where(upd, who2, who)
    return code, who


# ============================================================================= implementations under test
def _custom_fns(d):
    import jax.numpy as jnp

    if d["fn"] == "asinh":
        return (lambda x: 0.5 + 2.0 * jnp.arcsinh(x)), (lambda y: jnp.sinh((y - 0.5) / 2.0))
    lo, w = float(d["lo"]), float(d["hi"]) - float(d["lo"])

    def fwd(x):
        return lo + w * (0.5 * (1.0 + x / jnp.sqrt(1.0 + x * x)))

    def inv(y):
        t = 2.0 * (y - lo) / w - 1.0
        return t / jnp.sqrt((1.0 - t) * (1.0 + t))

    return fwd, inv


class _StableNS:
    """A correct implementation of the same public API with numerically stable forms (the no-false-alarm witness)."""

    class SigmoidTransform:
        def __init__(self, lower, upper):
            self.lower, self.width = lower, upper - lower

        def forward(self, x):
            import jax

            return self.lower + self.width * jax.nn.sigmoid(x)

        def inverse(self, y):
            import jax.numpy as jnp

            u = (y - self.lower) / self.width
            return jnp.log(u) - jnp.log1p(-u)

    class SoftplusTransform:
        def __init__(self, lower):
            self.lower = lower

        def forward(self, x):
            import jax.numpy as jnp

            return jnp.logaddexp(x, 0.0) + self.lower

        def inverse(self, y):
            import jax.numpy as jnp

            z = y - self.lower
            return z + jnp.log(-jnp.expm1(-z))

    class NegSoftplusTransform:
        def __init__(self, upper):
            self.sp = _StableNS.SoftplusTransform(-upper)

        def forward(self, x):
            return -self.sp.forward(-x)

        def inverse(self, y):
            return -self.sp.inverse(-y)

    class AffineTransform:
        def __init__(self, scale, shift):
            self.a, self.b = scale, shift

        def forward(self, x):
            return self.a * x + self.b

        def inverse(self, y):
            return (y - self.b) / self.a

    class CustomTransform:
        def __init__(self, f, g):
            self.forward, self.inverse = f, g

    class ChainTransform:
        def __init__(self, ts):
            self.ts = list(ts)

        def forward(self, x):
            for t in self.ts:
                x = t.forward(x)
            return x

        def inverse(self, y):
            for t in reversed(self.ts):
                y = t.inverse(y)
            return y

    class MaskedTransform:
        def __init__(self, mask, t):
            self.mask, self.t = mask, t

        def forward(self, x):
            import jax.numpy as jnp

            return jnp.where(self.mask, self.t.forward(x), x)

        def inverse(self, y):
            import jax.numpy as jnp

            return jnp.where(self.mask, self.t.inverse(y), y)


def _ns(impl):
    if impl == "stable":
        return _StableNS
    import jaxley.optimize.transforms as T

    return T


def build(desc, impl="jaxley"):
    import jax.numpy as jnp

    T = _ns(impl)
    k = desc["kind"]
    if k == "sigmoid":
        return T.SigmoidTransform(float(desc["lo"]), float(desc["hi"]))
    if k == "softplus":
        return T.SoftplusTransform(float(desc["lo"]))
    if k == "negsoftplus":
        return T.NegSoftplusTransform(float(desc["hi"]))
    if k == "affine":
        return T.AffineTransform(float(desc["scale"]), float(desc["shift"]))
    if k == "custom":
        return T.CustomTransform(*_custom_fns(desc))
    if k == "chain":
        return T.ChainTransform([build(s, impl) for s in desc["stages"]])
    if k == "masked":
        return T.MaskedTransform(jnp.asarray(desc["mask"], dtype=bool), build(desc["inner"], impl))
    raise ValueError(desc)


# ============================================================================= alphabets
def basics(bi):
    lo, hi = BOUNDS[bi]
    return [
        {"kind": "sigmoid", "lo": lo, "hi": hi},
        {"kind": "softplus", "lo": lo},
        {"kind": "negsoftplus", "hi": hi},
        {"kind": "affine", "scale": hi - lo, "shift": lo},
        {"kind": "custom", "fn": "alg", "lo": lo, "hi": hi},
    ]


def all_singles():
    out = []
    for bi in range(len(BOUNDS)):
        lo, hi = BOUNDS[bi]
        out += basics(bi)
        out += [{"kind": "softplus", "lo": hi}, {"kind": "negsoftplus", "hi": lo}]  # one-sided: each end point
    out += [{"kind": "affine", "scale": -2.0, "shift": 0.5}, {"kind": "custom", "fn": "asinh"}]
    seen, uniq = set(), []
    for d in out:
        key = digest(d)
        if key not in seen:
            seen.add(key)
            uniq.append(d)
    return uniq


def all_chains():
    out = []
    for bi in range(len(BOUNDS)):
        bs = basics(bi)
        for a, b in itertools.product(range(len(bs)), repeat=2):
            out.append({"kind": "chain", "stages": [bs[a], bs[b]]})
        out.append({"kind": "chain", "stages": [bs[0]]})  # length-1 chain
    out.append({"kind": "chain", "stages": []})  # empty chain = identity
    return out


def all_masked():
    out = []
    for bi in range(len(BOUNDS)):
        for inner in basics(bi):
            for mask in itertools.product([0, 1], repeat=3):
                out.append({"kind": "masked", "mask": list(mask), "inner": inner})
    return out


def tier_cfg(tier):
    if tier == "quick":
        return {"core": (-64.0, 64.0, -4), "per_octave": 4, "min_exp": -80, "k": 64, "t01": -6}
    return {"core": (-128.0, 128.0, -10), "per_octave": 64, "min_exp": -1074, "k": 1024, "t01": -12}


BASE_SPECIALS = [0.0]
for _c in (20.0, 53 * math.log(2), 24 * math.log(2), 709.782712893384, 745.1332191019411, 88.72283905206835, 103.97207708399179, 50.0):
    BASE_SPECIALS += [_c, -_c]

_LAT_CACHE = {}


def x_lattice(desc, tier):
    """Sorted float64 lattice on [-1e6, 1e6] for this configuration (base lattice + configuration specials)."""
    cfg = tier_cfg(tier)
    if tier not in _LAT_CACHE:
        _LAT_CACHE[tier] = L.special_lattice(
            -1e6, 1e6, core=cfg["core"], specials=BASE_SPECIALS, k=cfg["k"], per_octave=cfg["per_octave"], min_exp=cfg["min_exp"],
            extra=[25.0, -25.0, 40.0, -40.0, 1e3, -1e3],
        )
    base = _LAT_CACHE[tier]
    stages = stages_of(desc)
    sp = []
    with np.errstate(all="ignore"):
        # inner clip thresholds / zeros: x with u_i in {0, +-20}
        for i in range(1, len(stages)):
            for c in (0.0, CLIP, -CLIP):
                v = chain_inverse(stages[:i], np.array([c]))[0]
                if np.isfinite(v) and abs(v) <= 1e6:
                    sp.append(float(v))
        if stages:
            for dt in (np.float64, np.float32):
                fn = lambda x, dt=dt: chain_forward(stages, np.asarray(x, dtype=np.float64))[0][-1].astype(dt)
                for side in ("upper", "lower"):
                    sp.append(L.saturation_point(fn, -1e6, 1e6, side, dt))
    if not sp:
        return base
    nb = L.neighbourhoods(sp, cfg["k"])
    a = np.unique(np.concatenate([base, nb]))
    return a[(a >= -1e6) & (a <= 1e6)]


def y_lattice(desc, tier, xs):
    """Lattice of y strictly inside the open range of the configuration."""
    cfg = tier_cfg(tier)
    stages = stages_of(desc)
    with np.errstate(all="ignore"):
        lo, hi, _, _ = chain_range(stages, np.float64)
        parts = [chain_forward(stages, xs)[0][-1]]
        zpos = xs[xs > 0]
        t01 = np.concatenate([L.dyadic(0.0, 1.0, cfg["t01"]), 2.0 ** -np.arange(1.0, 61.0), 1.0 - 2.0 ** -np.arange(1.0, 54.0)])
        if np.isfinite(lo) and np.isfinite(hi):
            parts += [lo + (hi - lo) * t01, L.neighbourhoods([lo, hi], cfg["k"], (np.float64,))]
        elif np.isfinite(lo):
            parts += [lo + zpos, L.neighbourhoods([lo], cfg["k"], (np.float64,))]
        elif np.isfinite(hi):
            parts += [hi - zpos, L.neighbourhoods([hi], cfg["k"], (np.float64,))]
        else:
            parts += [xs]
        y = np.concatenate(parts)
        y = np.unique(y[np.isfinite(y)])
        y = y[(y > lo) & (y < hi) & (np.abs(y) <= 1e9)]
    return y


# ============================================================================= the oracle on one series of points
def _name(desc):
    return desc["kind"]


def _sig(desc, rule, regime, culprit, dtname, **extra):
    sig = {"rule": rule, "transform": desc["kind"], "regime": regime, "culprit": culprit, "dtype": dtname}
    # round trips outside the ordinary regime: `culprit` names the responsible stage kind; everywhere else the
    # composition is named, so that a defect of one basic transform inherited by its chains/masks cannot hide a
    # different chain/mask defect
    named = rule != "round_trip" or regime in ("ordinary", "n/a")
    if desc["kind"] == "chain" and named:
        sig["stages"] = ">".join(s["kind"] for s in desc["stages"])
    if desc["kind"] == "masked" and named:
        sig["inner"] = desc["inner"]["kind"]
    sig.update(extra)
    return sig


def _bucket(n):
    if n <= 8:
        return 8
    if n <= 65536:
        return 1 << int(np.ceil(np.log2(n)))
    return -(-n // 65536) * 65536


def _apply(obj, desc, pts, dtname, space, column, n_fill, impl):
    """Runs the implementation. Returns (first, second) as float64 numpy 1-D arrays for the judged column:
    space x: first = forward(x), second = inverse(forward(x)); space y: first = inverse(y), second = forward(inverse(y)).
    For masked descriptions the points are put into `column` of an (n,3) array, the other columns hold rolled copies."""
    import jax.numpy as jnp

    jdt = jnp.float32 if dtname == "float32" else jnp.float64
    n_true = len(pts)
    pts = np.concatenate([pts, np.full(_bucket(n_true) - n_true, pts[-1])])  # few distinct shapes -> few XLA compilations
    if desc["kind"] == "masked":
        n = len(pts)
        X = np.empty((n, 3))
        for j in range(3):
            X[:, j] = pts if (j == column or not n_fill) else np.roll(pts, ((j - column) % 3) * (n // 3) + 1)
        if not n_fill:
            for j in range(3):
                if j != column:
                    X[:, j] = 0.25
        arr = jnp.asarray(X, dtype=jdt)
    else:
        arr = jnp.asarray(pts, dtype=jdt)
    if space == "x":
        a = obj.forward(arr)
        b = obj.inverse(a) if dtname == "float64" else a
    else:
        a = obj.inverse(arr)
        b = obj.forward(a)
    rdt = str(a.dtype)
    mids = None
    if desc["kind"] == "chain" and len(desc["stages"]) >= 2:
        # the implementation's own stage inputs (only used to LABEL the regime of a violation, see regimes())
        u = arr if space == "x" else a
        mids = []
        for sd in desc["stages"]:
            mids.append(np.asarray(u, dtype=np.float64)[:n_true])
            u = build(sd, impl).forward(u)
    a, b = np.asarray(a, dtype=np.float64), np.asarray(b, dtype=np.float64)
    if desc["kind"] == "masked":
        a, b = a[:, column], b[:, column]
    return a[:n_true], b[:n_true], rdt, mids


def run_points(desc, space, dtname, pts, impl="jaxley", column=0, verify=True, fill=True):
    """Judge one configuration on an ascending series of points.
    Returns dict(stats={(regime, outcome): n}, violations=[...], cover=set(), evals=int)."""
    out = {"stats": {}, "violations": [], "cover": set(), "evals": 0}
    pts = np.asarray(pts, dtype=np.float64)
    if pts.size == 0:
        return out
    dt = np.float32 if dtname == "float32" else np.float64
    stages = stages_of(desc)
    masked_identity = desc["kind"] == "masked" and not desc["mask"][column]
    wit_base = {"t": "points", "desc": desc, "space": space, "dtype": dtname, "column": column}

    try:
        obj = build(desc, impl)
        a, b, rdt, mids = _apply(obj, desc, pts, dtname, space, column, fill, impl)
    except Exception as e:  # the property promises a value for every finite input
        out["violations"].append({
            "sig": _sig(desc, "raises", "n/a", "-", dtname, error=type(e).__name__),
            "witness": dict(wit_base, points=[float(pts[0]), float(pts[-1])]), "msg": f"{type(e).__name__}: {e}"[:300], "count": 1,
        })
        return out
    out["evals"] = int(pts.size)

    def emit(rule, bad, code, who, detail, extra=None, pair=False, strong=None):
        """bad: boolean mask over points (for pair rules: index i means the pair (i-1, i))."""
        idx_all = np.flatnonzero(bad)
        if idx_all.size == 0:
            return
        for rc in np.unique(code[idx_all]):
            sel = idx_all[code[idx_all] == rc]
            for w in np.unique(who[sel]):
                idx = sel[who[sel] == w]
                regime = REGIMES[int(rc)]
                culprit = stages[int(w)].kind if w >= 0 else "-"
                sig = _sig(desc, rule, regime, culprit, dtname, **(extra or {}))
                out["stats"][(regime, "viol:" + rule)] = out["stats"].get((regime, "viol:" + rule), 0) + int(idx.size)
                # witness preference: clear-cut (>= 100 x tolerance or non-finite) before marginal, then the
                # "simplest" number (integer before half-integer before ...), then the smallest magnitude
                key = _simplicity(pts[idx]) + (0 if strong is None else np.where(strong[idx], 0, 4096))
                order = idx[np.lexsort((np.abs(pts[idx]), key))]
                cands = [int(c) for c in order[:3]]
                chosen = None
                for c in cands:
                    p = [float(pts[c - 1]), float(pts[c])] if pair else [float(pts[c])]
                    wit = dict(wit_base, points=p)
                    if not verify:
                        chosen = (c, wit)
                        break
                    again = run_points(desc, space, dtname, p, impl, column, verify=False, fill=False)
                    if any(v["sig"] == sig for v in again["violations"]):
                        chosen = (c, wit)
                        break
                if chosen is None:  # never observed; would surface as a non-reproducible replay (harness error)
                    c = cands[0]
                    chosen = (c, dict(wit_base, points=[float(pts[c - 1]), float(pts[c])] if pair else [float(pts[c])]))
                c, wit = chosen
                out["violations"].append({
                    "sig": sig, "witness": wit, "count": int(idx.size),
                    "msg": f"{_describe(desc)} {space}-space {dtname}: {detail(c)}; {idx.size} points of this series, |x| from "
                           f"{float(np.min(np.abs(pts[idx]))):.6g} to {float(np.max(np.abs(pts[idx]))):.6g}",
                })

    with np.errstate(all="ignore"):
        if masked_identity:
            # unmasked column: forward and inverse must hand the value through untouched (bit for bit)
            ref = pts.astype(dt).astype(np.float64)
            bad = ~((a == ref) & (b == ref))
            z8 = np.zeros(pts.shape, np.int8)
            emit("masked_identity", bad, z8, z8 - 1, lambda c: f"x={pts[c]!r} came back as {a[c]!r} / {b[c]!r}")
            out["stats"][("ordinary", "identity_ok")] = int((~bad).sum())
            out["cover"].add("masked_identity_column")
            return out

        lo, hi, slo, shi = chain_range(stages, dt)
        sgn = chain_sign(stages)
        if space == "x":
            x = pts
            fx, rt = a, b
            us, ds = chain_forward(stages, x)
            inv_b, fwd_b, dydx = budgets(stages, us, ds, dt)
            code, who = regimes(stages, us, mids)
            # (a) finite, inside the closed bounds
            nonfin = ~np.isfinite(fx)
            emit("finite", nonfin, code, who, lambda c: f"forward({x[c]!r}) = {fx[c]!r}")
            oob = ~nonfin & ((fx < lo - slo) | (fx > hi + shi))
            emit("bounds", oob, code, who, lambda c: f"forward({x[c]!r}) = {fx[c]!r} outside [{lo!r}, {hi!r}]")
            # (b) monotone across consecutive points
            dec = np.zeros(x.shape, bool)
            if x.size > 1:
                d = sgn * (fx[1:] - fx[:-1])
                dec[1:] = np.isfinite(d) & (d < -M_MONO * (fwd_b[1:] + fwd_b[:-1]))
            emit("monotone", dec, code, who,
                 lambda c: f"forward({x[c-1]!r}) = {fx[c-1]!r} but forward({x[c]!r}) = {fx[c]!r}", pair=True)
            out["stats"][("all", "forward_ok")] = int((~nonfin & ~oob & ~dec).sum())
            if dtname == "float32":
                out["cover"].add("float32_qualitative")
                if rdt != "float32":
                    out["cover"].add("float32_input_promoted_to_" + rdt)
                return out
            # (c) inverse(forward(x)) = x
            tol = K_RT * (_ulp(x, dt) + inv_b)
            checked = np.isfinite(tol) & (tol <= 0.1 * (1.0 + np.abs(x)))
            err = np.abs(rt - x)
            bad = checked & ~(err <= tol)
            emit("round_trip", bad, code, who,
                 lambda c: f"inverse(forward({x[c]!r})) = {rt[c]!r} (forward = {fx[c]!r}), |err| = {err[c]:.3g} > tol = {tol[c]:.3g}",
                 extra={"direction": "inverse_of_forward"}, strong=~(err < 100 * tol))
        else:
            y = pts
            xr, yrt = a, b
            xs = chain_inverse(stages, y)
            us, ds = chain_forward(stages, xs)
            inv_b, fwd_b, dydx = budgets(stages, us, ds, dt)
            code, who = regimes(stages, us, mids)
            tol = K_RT * (_ulp(xs, dt) * np.abs(dydx) + fwd_b)
            checked = np.isfinite(xs) & (np.abs(xs) <= 1e6) & np.isfinite(tol) & (tol <= 0.1 * (1.0 + np.abs(y)))
            err = np.abs(yrt - y)
            bad = checked & ~(err <= tol)
            emit("round_trip", bad, code, who,
                 lambda c: f"forward(inverse({y[c]!r})) = {yrt[c]!r} (inverse = {xr[c]!r}, specified {xs[c]!r}), |err| = {err[c]:.3g} > tol = {tol[c]:.3g}",
                 extra={"direction": "forward_of_inverse"}, strong=~(err < 100 * tol))
            if checked.any():
                out["cover"].add("y_space_round_trip")
        for rc in range(3):
            m = code == rc
            n_ok = int((m & checked & ~bad).sum())
            n_skip = int((m & ~checked).sum())
            if n_ok:
                out["stats"][(REGIMES[rc], "round_trip_ok")] = n_ok
            if n_skip:
                out["stats"][(REGIMES[rc], "skipped_not_representable")] = n_skip
        if (~checked).any():
            out["cover"].add("saturated_skipped")
        if (checked & (code == 2)).any():
            out["cover"].add("x_beyond_clip")
        if space == "x" and (checked & (np.abs(np.abs(x) - CLIP) == 0)).any() and any(
            st.kind in ("sigmoid", "softplus", "negsoftplus") for st in stages
        ):
            out["cover"].add("x_at_clip_threshold")
    return out


def _simplicity(v):
    """0 for integers, k if v is an odd multiple of 2**-k (vectorised); used to pick readable witnesses."""
    v = np.asarray(v, dtype=np.float64)
    f, e = np.frexp(v)
    mi = np.abs(f * 2.0 ** 53).astype(np.int64)
    low = mi & -mi
    tz = np.where(mi == 0, 53, np.log2(np.maximum(low, 1).astype(np.float64)).astype(np.int64))
    return np.where(mi == 0, 0, np.maximum(0, -(e.astype(np.int64) - 53 + tz)))


def _describe(d):
    k = d["kind"]
    if k == "chain":
        return "Chain[" + ", ".join(_describe(s) for s in d["stages"]) + "]"
    if k == "masked":
        return f"Masked({d['mask']}, {_describe(d['inner'])})"
    if k == "sigmoid":
        return f"Sigmoid({d['lo']!r}, {d['hi']!r})"
    if k == "softplus":
        return f"Softplus({d['lo']!r})"
    if k == "negsoftplus":
        return f"NegSoftplus({d['hi']!r})"
    if k == "affine":
        return f"Affine({d['scale']!r}, {d['shift']!r})"
    return "Custom(" + d["fn"] + (f", {d['lo']!r}, {d['hi']!r})" if "lo" in d else ")")


# ============================================================================= work items
def _merge(res, r, tag, desc):
    res["evals"] += r["evals"]
    res["cover"] += sorted(r["cover"])
    for (regime, outcome), n in r["stats"].items():
        res["digests"].append(digest([desc, tag, regime, outcome]))
        res["_stats"].append((tag, regime, outcome, n))
    for v in r["violations"]:
        res["violations"].append({"sig": v["sig"], "witness": v["witness"], "msg": v["msg"]})


def run_config(desc, tier, impl="jaxley"):
    """All passes of one configuration on the tier lattice."""
    res = {"evals": 0, "digests": [], "cover": [], "refusals": [], "violations": [], "_stats": []}
    xs = x_lattice(desc, tier)
    ys = y_lattice(desc, tier, xs)
    x32 = L.as_f32_lattice(xs).astype(np.float64)
    cols = [0, 1, 2] if desc["kind"] == "masked" else [0]
    for col in cols:
        _merge(res, run_points(desc, "x", "float64", xs, impl, col), f"x64c{col}", desc)
        _merge(res, run_points(desc, "y", "float64", ys, impl, col), f"y64c{col}", desc)
        _merge(res, run_points(desc, "x", "float32", x32, impl, col), f"x32c{col}", desc)
    res["_n"] = {"x": int(xs.size), "y": int(ys.size), "x32": int(x32.size)}
    if desc["kind"] in ("chain", "masked", "custom"):
        res["cover"].append(desc["kind"])
    res["cover"] = sorted(set(res["cover"]))
    return res


NP_POINTS = [-3.0, -1.0, -0.25, 0.0, 0.5, 2.0]


def jdump_kinds(desc):
    if desc["kind"] == "chain":
        return [k for st in desc["stages"] for k in jdump_kinds(st)]
    if desc["kind"] == "masked":
        return jdump_kinds(desc["inner"])
    return [desc["kind"]]


def check_numpy(desc):
    """Caller's arrays: forward / inverse (and ParamTransform over leaves that are numpy arrays, two entries sharing ONE array) called
    twice on the same writable numpy array must leave it untouched, repeat their result, and agree with the jax-array route."""
    import jax.numpy as jnp
    import jaxley.optimize.transforms as T

    out = {"violations": [], "cover": [], "refusals": [], "digests": [], "evals": 0}
    t = build(desc)
    pts = np.asarray(NP_POINTS[:3] if desc["kind"] == "masked" else NP_POINTS, dtype=np.float64)
    # a CustomTransform runs the USER's functions on whatever array type it is given (the harness's own use numpy ops on numpy
    # input and jax ops on jax input, which round differently in ill-conditioned inverses): route equality is not judged there
    has_custom = "custom" in jdump_kinds(desc)

    def viol(rule, fn, msg):
        out["violations"].append({"sig": {"rule": rule, "transform": desc["kind"], "call": fn},
                                  "witness": {"t": "numpy_route", "desc": desc}, "msg": f"{_describe(desc)}: {msg}"})

    def same(a, b):
        a, b = np.asarray(a, float), np.asarray(b, float)
        return a.shape == b.shape and bool(np.all((np.abs(a - b) <= 1e-9 * (1 + np.abs(b))) | (np.isnan(a) & np.isnan(b)) | (a == b)))

    def twice(fn_name, call, arr):
        arr0 = arr.copy()
        out["evals"] += 1
        try:
            r1 = np.asarray(call(arr))
        except Exception as e:
            out["refusals"].append(f"numpy_input:{desc['kind']}:{fn_name}:{type(e).__name__}")
            return None
        if not np.array_equal(arr, arr0, equal_nan=True):
            viol("caller_array_mutated", fn_name, f"{fn_name} changed the caller's numpy array {arr0.tolist()} -> {arr.tolist()}")
            return None
        r2 = np.asarray(call(arr))
        if not same(r2, r1):
            viol("repeated_call_differs", fn_name, f"second {fn_name} on the same array gives {r2.tolist()} after {r1.tolist()}")
            return None
        rj = np.asarray(call(jnp.asarray(arr0)))
        if not has_custom and not same(r1, rj):
            viol("numpy_route_differs", fn_name, f"{fn_name}(numpy) = {r1.tolist()} vs {fn_name}(jax array) = {rj.tolist()}")
            return None
        out["cover"].append("numpy_route")
        return r1

    f = twice("forward", t.forward, pts.copy())
    if f is not None and np.all(np.isfinite(f)):
        twice("inverse", t.inverse, np.array(f, dtype=np.float64))
    if desc["kind"] != "masked":
        shared = np.array(f if f is not None and np.all(np.isfinite(f)) else pts, dtype=np.float64)
        ptf = T.ParamTransform([{"a": t}, {"b": t}])
        keep = shared.copy()
        try:
            r = ptf.inverse([{"a": shared}, {"b": shared}])
            want = np.asarray(t.inverse(jnp.asarray(keep)))
            out["evals"] += 1
            if not np.array_equal(shared, keep, equal_nan=True):
                viol("caller_array_mutated", "param_inverse", "ParamTransform.inverse changed the caller's numpy leaf")
            elif not same(r[0]["a"], r[1]["b"]) or (not has_custom and not same(r[0]["a"], want)):
                viol("numpy_route_differs", "param_inverse", f"two entries sharing one numpy array: {np.asarray(r[0]['a']).tolist()} / {np.asarray(r[1]['b']).tolist()} vs {want.tolist()}")
            else:
                out["cover"].append("numpy_leaf_shared_by_two_entries")
        except Exception as e:
            out["refusals"].append(f"numpy_input:param:{type(e).__name__}")
    # the same instance called in a lower precision first: its float64 behaviour afterwards must be that of a fresh instance
    try:
        fresh64 = np.asarray(build(desc).forward(jnp.asarray(pts, dtype=jnp.float64)))
        t2 = build(desc)
        for low in (jnp.float32, jnp.float16):
            t2.forward(jnp.asarray(pts, dtype=low))
            t2.inverse(t2.forward(jnp.asarray(pts, dtype=low)))
        after64 = np.asarray(t2.forward(jnp.asarray(pts, dtype=jnp.float64)))
        out["evals"] += 1
        out["cover"].append("float64_after_lower_precision_call")
        if after64.dtype != fresh64.dtype or not np.array_equal(after64, fresh64, equal_nan=True):
            bad = int(np.argmax(~((after64 == fresh64) | (np.isnan(after64) & np.isnan(fresh64)))))
            viol("instance_changed_by_lower_precision_call", "forward",
                 f"forward({pts[bad]!r}) in float64 is {after64[bad]!r} after a float32/float16 call on the same instance, {fresh64[bad]!r} on a fresh instance")
    except Exception as e:
        out["refusals"].append(f"low_precision:{desc['kind']}:{type(e).__name__}")
    out["digests"].append(digest(["numpy_route", desc]))
    return out


def work(item):
    if item["t"] == "numpy_route":
        return check_numpy(item["desc"])
    if item["t"] == "config":
        res = run_config(item["desc"], item["tier"], "jaxley")
        ref = run_config(item["desc"], item["tier"], "stable")
        if ref["violations"]:
            raise RuntimeError(
                "oracle not satisfiable: the numerically stable reference implementation violates it: "
                + "; ".join(f"{v['sig']} {v['msg']}" for v in ref["violations"][:3])
            )
        res["evals"] += ref["evals"]
        res["cover"].append("oracle_satisfiable_by_stable_reference")
        res["sample"] = {"transform": _describe(item["desc"]), "lattice_points": res.pop("_n"),
                         "outcomes": sorted(f"{t}:{r}:{o}={n}" for t, r, o, n in res.pop("_stats"))[:12]}
        return res
    if item["t"] == "f32sweep":
        return work_sweep(item)
    if item["t"] == "param":
        return work_param(item)
    if item["t"] == "param_plain":
        return work_param_plain(item)
    raise ValueError(item)


def work_sweep(item):
    """Every float32 of one ordinal chunk: float32 qualitatively and (as float64 inputs) with all oracles."""
    desc = item["desc"]
    res = {"evals": 0, "digests": [], "cover": ["all_float32_sweep"], "refusals": [], "violations": [], "_stats": []}
    first, n = item["first"], item["n"]
    sub = 1 << 20
    s = first
    best = {}
    while s < first + n:
        m = min(sub, first + n - s)
        v = L.f32_values(s, m).astype(np.float64)
        for dtname in ("float32", "float64"):
            for impl in (("jaxley", "stable") if item.get("stable") else ("jaxley",)):
                r = run_points(desc, "x", dtname, v, impl, 0)
                if impl == "stable":
                    if r["violations"]:
                        raise RuntimeError("oracle not satisfiable on the float32 sweep: " + str(r["violations"][0]["msg"]))
                    res["evals"] += r["evals"]
                    continue
                for vv in r["violations"]:  # keep, per signature, the witness closest to zero over all sub-chunks
                    key = digest(vv["sig"])
                    mag = abs(vv["witness"]["points"][-1])
                    if key not in best or mag < best[key][0]:
                        best[key] = (mag, vv, best.get(key, (0, 0, 0))[2] + vv["count"])
                    else:
                        best[key] = (best[key][0], best[key][1], best[key][2] + vv["count"])
                r["violations"] = []
                _merge(res, r, "sweep" + dtname, desc)
        if s + m >= first + n:
            break
        s = s + m - 1
    for key, (mag, vv, cnt) in best.items():
        res["violations"].append({"sig": vv["sig"], "witness": vv["witness"], "msg": vv["msg"] + f" [{cnt} float32 values in this chunk]"})
    agg = {}
    for t, r, o, k in res.pop("_stats"):
        agg[(t, r, o)] = agg.get((t, r, o), 0) + k
    res["sample"] = {"transform": _describe(desc), "float32_first_ordinal": first, "n": n,
                     "outcomes": sorted(f"{t}:{r}:{o}={k}" for (t, r, o), k in agg.items())[:12]}
    return res


# ----------------------------------------------------------------------------- ParamTransform
PT_KEYS = ["radius", "HH_gNa", "axial_resistivity"]
PT_SHAPES = [[1], [2, 3], [3, 1, 2]]
PT_VALUES = [
    [-2.5, -0.75, 0.0, 0.5, 1.25, 3.0, -1.5, 2.25, 0.125],
    [0.375, 2.0, -3.0, -0.25, 1.0, -1.75, 2.75, -0.5, 1.5],
    [-1.0, 1.0, -2.0, 2.0, -3.0, 3.0, -0.0625, 0.0625, 0.75],
    [2.5, 2.5, 2.5, -2.5, -2.5, -2.5, 0.0, 0.0, 0.0],
]
PT_TYPES = ["sigmoid", "softplus", "negsoftplus", "affine", "custom", "chain", "masked"]


def pt_desc(tname, entry, length):
    """Transform of leaf `entry` (bounds index = entry, so that equal types on different leaves still differ)."""
    bs = basics(entry % len(BOUNDS))
    by = {b["kind"]: b for b in bs}
    if tname in by:
        return by[tname]
    if tname == "chain":
        return {"kind": "chain", "stages": [{"kind": "affine", "scale": 0.5, "shift": 0.25}, by["sigmoid"]]}
    if tname == "masked":
        return {"kind": "masked", "mask": [1, 0, 1][:length], "inner": by["softplus"]}
    raise ValueError(tname)


# layouts in which the SAME key occurs in several entries: get_parameters() returns exactly this after several
# make_trainable("radius") calls on different views; every entry still owns its own transform (by POSITION)
PT_DUP_LAYOUTS = [
    (["radius", "radius"], [2, 3]),
    (["radius", "HH_gNa", "radius"], [3, 1, 2]),
    (["radius", "radius", "radius"], [3, 1, 2]),
]
PT_PLAIN_SHAPES = [[3], [2, 3]]


def pt_items(tier):
    items = []
    vids = [0, 1] if tier == "quick" else [0, 1, 2, 3]
    for lengths in PT_SHAPES:
        types = PT_TYPES[:5] if (tier == "quick" and len(lengths) == 3) else PT_TYPES
        for assign in itertools.product(types, repeat=len(lengths)):
            items.append({"t": "param", "lengths": lengths, "assign": list(assign), "vids": vids})
    for keys, lengths in PT_DUP_LAYOUTS:
        n = len(lengths)
        if tier == "quick":  # all assignments of pairwise different types + the same type with different bounds
            assigns = list(itertools.permutations(PT_TYPES[:5], n)) + [(t,) * n for t in PT_TYPES[:5]]
        else:
            assigns = list(itertools.product(PT_TYPES, repeat=n))
        for assign in assigns:
            items.append({"t": "param", "keys": keys, "lengths": lengths, "assign": list(assign), "vids": vids})
    for tname in PT_TYPES:
        items.append({"t": "param_plain", "tname": tname, "vids": vids})
    return items


def _pt_leaf_judge(desc, p, col_mask=None):
    """tolerance of inverse(forward(p)) for a leaf (per element), using the leaf's spec."""
    stages = stages_of(desc)
    with np.errstate(all="ignore"):
        us, ds = chain_forward(stages, p)
        inv_b, fwd_b, dydx = budgets(stages, us, ds, np.float64)
        tol = K_RT * (_ulp(p, np.float64) + inv_b)
    if desc["kind"] == "masked":
        m = np.asarray(desc["mask"], bool)
        tol = np.where(m, tol, 0.0)
    return tol


def check_param(lengths, assign, vid, cache=None, keys=None):
    """Returns (violations, cover, digest_obj, evals).  `cache` lets one work item reuse the transform objects and the
    jitted functions for several value tables (same shapes -> one compilation)."""
    import jax
    import jax.numpy as jnp
    from jaxley.optimize.transforms import ParamTransform

    viol, cover = [], set()
    n = len(lengths)
    descs = [pt_desc(assign[j], j, lengths[j]) for j in range(n)]
    cache = {} if cache is None else cache
    keys = list(PT_KEYS[:n]) if keys is None else list(keys)
    dup = len(set(keys)) < n
    shape_class = "duplicate_keys" if dup else "distinct_keys"
    wit = {"t": "param", "lengths": lengths, "assign": assign, "vid": vid, "keys": keys}

    def v(rule, msg, **extra):
        viol.append({"sig": dict({"rule": rule, "transform": "param_transform", "shape": shape_class}, **extra),
                     "witness": wit, "msg": msg})

    vals, off = [], 0
    for j in range(n):
        vals.append(np.asarray(PT_VALUES[vid][off:off + lengths[j]], dtype=np.float64))
        off += lengths[j]
    try:
        if "pt" not in cache:
            cache["tfs"] = [build(d, "jaxley") for d in descs]
            cache["pt"] = ParamTransform([{keys[j]: cache["tfs"][j]} for j in range(n)])
            cache["jf"], cache["ji"] = jax.jit(cache["pt"].forward), jax.jit(cache["pt"].inverse)
        tfs, pt = cache["tfs"], cache["pt"]
        params = [{keys[j]: jnp.asarray(vals[j])} for j in range(n)]
        fwd = pt.forward(params)
        back = pt.inverse(fwd)
        fwd_j = cache["jf"](params)
        back_j = cache["ji"](fwd)
    except Exception as e:
        v("raises", f"{type(e).__name__}: {e}"[:300], error=type(e).__name__)
        return viol, cover, None, 1
    cover.add("param_transform_jit")

    def structure_ok(tree):
        return (isinstance(tree, list) and len(tree) == n and all(
            isinstance(tree[j], dict) and list(tree[j].keys()) == [keys[j]] and np.shape(tree[j][keys[j]]) == (lengths[j],)
            for j in range(n)))

    for name, tree in (("forward", fwd), ("inverse", back), ("forward_jit", fwd_j), ("inverse_jit", back_j)):
        if not structure_ok(tree):
            v("structure", f"{name} returned a different pytree: {jax.tree_util.tree_structure(tree)}", call=name)
            return viol, cover, None, 4
    for j in range(n):  # inputs untouched
        if not np.array_equal(np.asarray(params[j][keys[j]]), vals[j]):
            v("input_mutated", f"leaf {j} of the input changed", call="forward")
    all_bitwise = True
    with np.errstate(all="ignore"):
        for j in range(n):
            key = keys[j]
            got = np.asarray(fwd[j][key])
            own = np.asarray(tfs[j].forward(params[j][key]))
            if not np.array_equal(got, own, equal_nan=True):
                v("routing", f"forward leaf {j} ({_describe(descs[j])}) = {got.tolist()} but its own transform gives {own.tolist()}",
                  call="forward")
            gotb = np.asarray(back[j][key])
            ownb = np.asarray(tfs[j].inverse(fwd[j][key]))
            if not np.array_equal(gotb, ownb, equal_nan=True):
                v("routing", f"inverse leaf {j} ({_describe(descs[j])}) = {gotb.tolist()} but its own transform gives {ownb.tolist()}",
                  call="inverse")
            # non-vacuity: some other leaf's transform would have given something else
            for i in range(n):
                if i == j:
                    continue
                try:
                    other = np.asarray(tfs[i].forward(params[j][key]))
                    if other.shape == own.shape and not np.array_equal(other, own, equal_nan=True):
                        cover.add("param_transform_routing_distinguishable")
                        if keys[i] == keys[j]:  # a lookup by NAME instead of by position would be visible here
                            cover.add("param_transform_duplicate_keys")
                except Exception:
                    pass
            # leafwise round trip
            tol = _pt_leaf_judge(descs[j], vals[j])
            err = np.abs(gotb - vals[j])
            ok = err <= tol
            rep = tol <= 0.1 * (1 + np.abs(vals[j]))
            if np.any(rep & ~ok):
                v("round_trip", f"inverse(forward(p)) leaf {j} ({_describe(descs[j])}): p={vals[j].tolist()} -> {gotb.tolist()} tol={tol.tolist()}",
                  leaf=descs[j]["kind"])
            # jit
            for nm, e_, j_ in (("forward", got, np.asarray(fwd_j[j][key])), ("inverse", gotb, np.asarray(back_j[j][key]))):
                if not np.array_equal(e_, j_, equal_nan=True):
                    all_bitwise = False
                    lim = 16 * L.ulp(np.maximum(np.abs(e_), stages_of(descs[j])[-1].magb if stages_of(descs[j]) else 0.0))
                    if not np.all(np.abs(e_ - j_) <= lim):
                        v("jit_mismatch", f"{nm} leaf {j} ({_describe(descs[j])}): eager {e_.tolist()} vs jit {j_.tolist()}", call=nm,
                          leaf=descs[j]["kind"])
    if all_bitwise:
        cover.add("param_transform_jit_bitwise_equal")
    dig = [keys, lengths, assign, vid, [[round(float(x), 9) for x in np.asarray(fwd[j][keys[j]])] for j in range(n)]]
    return viol, cover, dig, 4


def work_param(item):
    res = {"evals": 0, "digests": [], "cover": [], "refusals": [], "violations": []}
    cache = {}
    for vid in item["vids"]:
        viol, cover, dig, ev = check_param(item["lengths"], item["assign"], vid, cache, item.get("keys"))
        res["evals"] += ev
        res["cover"] += sorted(cover)
        res["violations"] += viol
        if dig is not None:
            res["digests"].append(digest(dig))
    res["cover"] = sorted(set(res["cover"]))
    res["sample"] = {"param_transform": item["assign"], "keys": item.get("keys", PT_KEYS[:len(item["lengths"])]),
                     "lengths": item["lengths"], "value_tables": item["vids"]}
    return res


def check_plain(tname, bi, shape, vid, cache=None):
    """ParamTransform(single Transform) applied to a plain array (the `| ArrayLike` call form)."""
    import jax
    import jax.numpy as jnp
    from jaxley.optimize.transforms import ParamTransform

    viol, cover = [], set()
    cache = {} if cache is None else cache
    desc = pt_desc(tname, bi, 3)
    wit = {"t": "param_plain", "tname": tname, "bi": bi, "shape": shape, "vid": vid}

    def v(rule, msg, **extra):
        viol.append({"sig": dict({"rule": rule, "transform": "param_transform", "shape": "plain_array"}, **extra),
                     "witness": wit, "msg": msg})

    nel = int(np.prod(shape))
    x = np.asarray(PT_VALUES[vid][:nel], dtype=np.float64).reshape(shape)
    ck = (bi, tuple(shape))
    try:
        if ck not in cache:
            tf = build(desc, "jaxley")
            pt = ParamTransform(tf)
            cache[ck] = (tf, pt, jax.jit(pt.forward), jax.jit(pt.inverse))
        tf, pt, jf, ji = cache[ck]
        xa = jnp.asarray(x)
        fwd, fwd_j = pt.forward(xa), jf(xa)
        back, back_j = pt.inverse(fwd), ji(fwd)
        own, ownb = tf.forward(xa), tf.inverse(fwd)
    except Exception as e:
        v("raises", f"{type(e).__name__}: {e}"[:300], error=type(e).__name__)
        return viol, cover, None, 1
    cover.add("param_transform_plain_array")
    for name, r in (("forward", fwd), ("inverse", back), ("forward_jit", fwd_j), ("inverse_jit", back_j)):
        if not hasattr(r, "shape") or tuple(np.shape(r)) != tuple(shape):
            v("structure", f"{name} of a plain array of shape {shape} returned {type(r).__name__} {np.shape(r)}", call=name)
            return viol, cover, None, 4
    got, gotb = np.asarray(fwd), np.asarray(back)
    with np.errstate(all="ignore"):
        if not np.array_equal(got, np.asarray(own), equal_nan=True):
            v("routing", f"forward({x.tolist()}) = {got.tolist()} but {_describe(desc)} gives {np.asarray(own).tolist()}", call="forward")
        if not np.array_equal(gotb, np.asarray(ownb), equal_nan=True):
            v("routing", f"inverse = {gotb.tolist()} but {_describe(desc)} gives {np.asarray(ownb).tolist()}", call="inverse")
        tol = _pt_leaf_judge(desc, x)
        err = np.abs(gotb - x)
        rep = tol <= 0.1 * (1 + np.abs(x))
        if np.any(rep & ~(err <= tol)):
            v("round_trip", f"inverse(forward(p)) ({_describe(desc)}): p={x.tolist()} -> {gotb.tolist()}", leaf=desc["kind"])
        st = stages_of(desc)
        for nm, e_, j_ in (("forward", got, np.asarray(fwd_j)), ("inverse", gotb, np.asarray(back_j))):
            if not np.array_equal(e_, j_, equal_nan=True):
                lim = 16 * L.ulp(np.maximum(np.abs(e_), st[-1].magb if st else 0.0))
                if not np.all(np.abs(e_ - j_) <= lim):
                    v("jit_mismatch", f"{nm} ({_describe(desc)}): eager {e_.tolist()} vs jit {j_.tolist()}", call=nm, leaf=desc["kind"])
    dig = ["plain", tname, bi, shape, vid, [round(float(t), 9) for t in got.ravel()]]
    return viol, cover, dig, 4


def work_param_plain(item):
    res = {"evals": 0, "digests": [], "cover": [], "refusals": [], "violations": []}
    cache = {}
    for bi in range(len(BOUNDS)):
        for shape in PT_PLAIN_SHAPES:
            for vid in item["vids"]:
                viol, cover, dig, ev = check_plain(item["tname"], bi, shape, vid, cache)
                res["evals"] += ev
                res["cover"] += sorted(cover)
                res["violations"] += viol
                if dig is not None:
                    res["digests"].append(digest(dig))
    res["cover"] = sorted(set(res["cover"]))
    res["sample"] = {"param_transform_plain_array": item["tname"], "shapes": PT_PLAIN_SHAPES, "value_tables": item["vids"]}
    return res


# ============================================================================= explore / replay
SWEEP_LO, SWEEP_HI = -100.0, 100.0


def sweep_descs():
    out = []
    for bi in range(len(BOUNDS)):
        out += basics(bi)[:3]
    out += [basics(1)[3], basics(1)[4], {"kind": "custom", "fn": "asinh"}]
    return out


def explore(ctx):
    singles, chains, masked = all_singles(), all_chains(), all_masked()
    items = [{"t": "config", "desc": d, "tier": ctx.tier} for d in singles + chains + masked]
    pts = pt_items(ctx.tier)
    items += pts
    items += [{"t": "numpy_route", "desc": d} for d in singles + chains + masked[::8]]
    ctx.note("configurations", {"single": len(singles), "chain": len(chains), "masked": len(masked), "param_transform_assignments": len(pts)})
    ctx.note("lattice", dict(tier_cfg(ctx.tier), interval=[-1e6, 1e6], specials=BASE_SPECIALS,
                             base_points=int(x_lattice({"kind": "chain", "stages": []}, ctx.tier).size)))
    ctx.note("tolerances", {"K_round_trip": K_RT, "M_monotone": M_MONO, "S_bounds_ulp": S_BND, "skip_if_tol_gt": "0.1*(1+|x|)"})
    if ctx.thorough:
        import os

        chunks = L.f32_chunks(SWEEP_LO, SWEEP_HI, 1 << 24)
        sd = sweep_descs()
        stable = os.environ.get("C17_SWEEP_STABLE", "0") == "1"
        items += [{"t": "f32sweep", "desc": d, "first": f, "n": n, "stable": stable} for d in sd for (f, n) in chunks]
        ctx.note("float32_sweep", {"interval": [SWEEP_LO, SWEEP_HI], "values": L.f32_count(SWEEP_LO, SWEEP_HI),
                                   "configurations": len(sd), "chunks_each": len(chunks), "stable_reference_too": stable})
    ctx.max_samples = 10
    ctx.map("work", items)


def replay(w):
    if w["t"] == "numpy_route":
        return check_numpy(w["desc"])["violations"]
    if w["t"] == "param":
        viol, _, _, _ = check_param(w["lengths"], w["assign"], w["vid"], None, w.get("keys"))
        return viol
    if w["t"] == "param_plain":
        viol, _, _, _ = check_plain(w["tname"], w["bi"], w["shape"], w["vid"])
        return viol
    r = run_points(w["desc"], w["space"], w["dtype"], w["points"], "jaxley", w.get("column", 0), verify=False, fill=False)
    return [{"sig": v["sig"], "witness": v["witness"], "msg": v["msg"]} for v in r["violations"]]
