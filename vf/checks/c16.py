"""C16 — SWC import preserves the traced morphology.

Bounded-exhaustive: every depth-first-ordered point tree up to the tier bound x soma form x neurite type
pattern, written as an SWC file with fixed generic coordinates/radii, read with the real `jaxley.read_swc`
for every (ncomp, max_branch_len, min_radius) and compared, up to tree isomorphism, with the reference reader
`vf.refswc` that implements only the documented conventions.
"""
from __future__ import annotations

import math
import os
import tempfile
import traceback

import numpy as np

from vf import refswc
from vf.runner import digest

ID = "C16"
LEVEL = "exploration"
RULE = (
    "enumerate every depth-first-ordered point tree with <=6 (quick) / <=8 (thorough) points (Catalan(n-1) trees "
    "with n points, including the file that is one soma point) x soma form "
    "{single point, 3-point chain 1-2-3 with neurites on any soma point, 3-point chain along the last children so that neurites on inner "
    "soma points are listed before the soma continues} x 6 neurite type patterns over {0,2,3,4} "
    "(uniform; by subtree at the soma; change with depth inside a neurite; both; first listed child of every branch point differs while later "
    "children continue the parent's type; a stretch of type 0 'undefined' between two other types) with fixed generic coordinates "
    "and radii (functions of the point index and the number of points only), dedupe identical files; read each file with the real "
    "jaxley.read_swc for ncomp {1,2,3} x max_branch_len {None, 18 um} x min_radius {None, 0.5 um} and compare "
    "branch count, parent relation, branch lengths, SWC-type groups and radii at compartment centres with the "
    "reference reader up to tree isomorphism (junction branch contracted), plus ncomp-invariance of lengths and "
    "connectivity inside the implementation; an exception from read_swc is a violation (the files are well "
    "formed); a case (file, options) is distinct/non-trivial if the reference has >=2 sections. Second family "
    "(both tiers): soma {1 point, 3-point chain} + ONE long unbranched neurite of n traced points for every n in "
    "2..14 (nearly equal spacing 5.0-5.35 um) with 1-2 short neurites of other types before and/or after it in file "
    "order (4 layouts) x max_branch_len {None, 3.0 (below the spacing), 5.5105 (just above it: one traced segment per "
    "piece, i.e. up to 14 pieces), the values with which 2, 3, 10, 11 equal-count pieces fit} x ncomp {1,2}, so that the reader's documented limit of 10 sub-branches is crossed"
)
REQUIRED_COVER = [
    "single_point_soma",
    "three_point_soma",
    "type_change_mid_path",
    "type_change_at_branch_point",
    "two_neurite_types_at_soma",
    "max_branch_len_split",
    "max_branch_len_split_agrees",
    "min_radius_clips",
    "zero_length_section",
    "branch_point_with_3_children",
    "root_junction",
    "neurite_on_middle_soma_point",
    "section_needing_2_pieces",
    "section_needing_3_pieces",
    "section_needing_10_pieces",
    "section_needing_11_pieces",
    "section_needing_more_than_10_pieces",
    "section_needing_more_than_10_pieces:followed_by_other_type",
    "agrees_with_reference",
    "agrees_with_reference:three_point_soma",
    "agrees_with_reference:two_neurite_types",
]
ASSUMPTIONS = [
    "coordinates and radii are one fixed generic valuation per (point index, number of points) (no coincidences between compartment "
    "centres and traced points, no equal section lengths except the 1 um zero-length convention); the reader's "
    "arithmetic is piecewise linear in them, other valuations are not explored",
    "branch ORDER is not documented: branches are compared up to tree isomorphism (children in any order)",
    "weaker reading R3: the docs say the soma-to-neurite gap is ignored for a single-point soma; for a multi-point "
    "soma both 'gap included' and 'gap ignored' are accepted, but the same reading must hold for the whole file",
    "weaker reading R6: where max_branch_len cuts a section is not documented ('equal parts' vs 'two branches'); "
    "only demanded: a longer section becomes a chain of >=2 same-type branches cut at traced points, lengths add up "
    "to the section, radii follow the section's profile, every piece <= max_branch_len when every traced segment is",
    "weaker reading R6b: the reader documents that it stops splitting with a warning beyond 10 sub-branches; a "
    "section rendered by >=10 pieces may therefore keep pieces longer than max_branch_len (lengths only: type "
    "groups, total length, radii and connectivity are still demanded)",
    "R5 (own first radius where a new type starts) is taken from the comment in _radius_generating_fns and applied "
    "to every section whose type differs from the section (or bare root point) it is attached to",
    "the 0.1 um junction branch (group custom) that joins several sections starting at the root point is contracted "
    "and excluded from lengths and groups; its radius is not judged",
    "groups are compared as a partition of branches with the documented names (soma, axon, basal, apical); "
    "cell.xyzr is not judged",
    "a file that consists of one soma point is taken to be a well-formed SWC file (a point neuron)",
    "tolerances: branch lengths 1e-9 relative, radii 1e-4*(1+r) (the reader's 1e-8 knot fudge gives <=3e-7)",
    "trees above the stated number of points are not explored",
]

NCOMPS = (1, 2, 3)
MBL = 18.0
MIN_RADIUS = 0.5
LEN = [7.3, 11.9, 4.1, 9.7, 3.2, 10.4, 5.6, 8.3, 12.6, 6.1, 4.8]
RAD = [0.9, 0.35, 1.4, 0.22, 0.6, 1.1, 0.28, 0.75, 0.41, 1.25, 0.55]
SOMA_RAD = [5.1, 4.3, 3.6]
SOMA_LEN = [0.0, 4.7, 5.3]
# defect models used ONLY to label violations (never to accept anything)
HYPOTHESES = [
    ("first_neurite_type_from_last_row", {"stale_first_neurite_type": True}),
    ("no_own_radius_at_root_junction", {"root_junction_keeps_root_radius": True}),
]
PATTERNS = ["uniform", "by_subtree", "by_depth", "by_subtree_and_depth", "first_child_differs", "undefined_mid"]


# --------------------------------------------------------------------------- enumeration
def dfs_trees(n):
    """All parent lists (1-based ids, root -1) of trees with n points listed in depth-first order:
    point i attaches to any point of the rightmost path of the tree built so far (Catalan(n-1) many)."""
    out = []

    def rec(parents, path):
        i = len(parents) + 1
        if i > n:
            out.append(list(parents))
            return
        for k in range(len(path)):
            rec(parents + [path[k]], path[: k + 1] + [i])

    rec([-1], [1])
    return out


def last_path(parents, k):
    """The k points on the path that starts at the root and always continues with the LAST child (in file order), or None."""
    n = len(parents)
    path = [1]
    while len(path) < k:
        ch = [i + 1 for i, p in enumerate(parents) if p == path[-1]]
        if not ch:
            return None
        path.append(ch[-1])
    return path


def make_swc(parents, soma_pts, pattern):
    """SWC text of the tree; a pure function of its arguments.  `soma_pts` is the number of soma points (they are then the first
    points of the file) or an explicit list of soma point ids (a chain from the root; neurites attached to an inner soma point may then
    be listed BEFORE the soma continues)."""
    n = len(parents)
    kids = {i: [] for i in range(1, n + 1)}
    for i, p in enumerate(parents):
        if p > 0:
            kids[p].append(i + 1)
    types = [0] * (n + 1)
    soma_ids = list(range(1, soma_pts + 1)) if isinstance(soma_pts, int) else list(soma_pts)
    soma_rank = {i: k for k, i in enumerate(soma_ids)}
    for i in soma_ids:
        types[i] = 1
    sub = 0

    def assign(i, k, d, inherited=None):
        base = (3, 4, 2)[k % 3] if pattern in ("by_subtree", "by_subtree_and_depth") else 3
        nxt = {3: 4, 4: 2, 2: 3}[base]
        if pattern == "by_depth":
            t = base if d <= 2 else nxt
        elif pattern == "by_subtree_and_depth":
            t = base if d <= 1 else nxt
        elif pattern == "undefined_mid":
            t = base if d <= 1 else (0 if d == 2 else 2)  # SWC type 0 ("undefined") between two other types
        elif pattern == "first_child_differs":
            t = inherited if inherited is not None else base
        else:
            t = base
        types[i] = t
        for j, c in enumerate(kids[i]):
            # at a branch point the FIRST listed child starts another type, the later ones continue the parent's type
            inh = ({3: 4, 4: 2, 2: 3}[t] if (j == 0 and len(kids[i]) >= 2) else t) if pattern == "first_child_differs" else None
            assign(c, k, d + 1, inh)

    # neurite subtrees in file order of their first point
    starts = sorted(c for i in soma_ids for c in kids[i] if c not in soma_rank)
    for k, c in enumerate(starts):
        assign(c, k, 1)
    pos = {1: (0.0, 0.0, 0.0)}
    lines = []
    for i in range(1, n + 1):
        p = parents[i - 1]
        if p > 0:
            z = ((i * 0.6180339887) % 1.0) * 1.6 - 0.8
            th = 2.399963229 * i
            s = math.sqrt(1 - z * z)
            d = (s * math.cos(th), s * math.sin(th), z)
            L = SOMA_LEN[soma_rank[i]] if i in soma_rank else LEN[(i + n) % len(LEN)]
            pos[i] = tuple(a + L * b for a, b in zip(pos[p], d))
        r = SOMA_RAD[soma_rank[i]] if i in soma_rank else RAD[(i + 2 * n) % len(RAD)]
        x, y, zz = pos[i]
        lines.append(f"{i} {types[i]} {x:.4f} {y:.4f} {zz:.4f} {r:.4f} {p}")
    return "\n".join(lines) + "\n"


def files_of_tier(tier):
    nmax = 6 if tier == "quick" else 8
    seen, out = set(), []
    for n in range(1, nmax + 1):
        for parents in dfs_trees(n):
            for soma_pts in (1, 3):
                if soma_pts == 3 and (n < 4 or parents[:3] != [-1, 1, 2]):
                    continue
                for pat in PATTERNS:
                    text = make_swc(parents, soma_pts, pat)
                    if text in seen:
                        continue
                    seen.add(text)
                    out.append({"swc": text, "parents": parents, "soma_pts": soma_pts, "pattern": pat})
            # 3-point soma chain along the LAST children: neurites on the first two soma points precede the soma's continuation
            lp = last_path(parents, 3)
            if lp is not None and lp != [1, 2, 3] and n >= 4:
                for pat in PATTERNS:
                    text = make_swc(parents, lp, pat)
                    if text not in seen:
                        seen.add(text)
                        out.append({"swc": text, "parents": parents, "soma_pts": 3, "pattern": pat, "soma_ids": lp})
    return out


# --- family "long_section": ONE long unbranched neurite whose number of traced points crosses the reader's
# documented limit of 10 sub-branches, with short neurites of other types before/after it in file order
LONG_N = tuple(range(2, 15))
LONG_LAYOUTS = {  # neurites at the end of the soma, in file order: (kind, SWC type)
    "long_then_short": [("long", 3), ("short", 4)],
    "short_long_short": [("short", 2), ("long", 3), ("short", 4)],
    "long_short_short": [("long", 3), ("short", 4), ("short", 2)],
    "short_then_long": [("short", 4), ("long", 3)],
}
LONG_DMIN, LONG_DMAX = 5.0, 5.35  # spacing of consecutive traced points lies in [DMIN, DMAX]
LONG_BELOW_SPACING = 3.0
LONG_PIECES = (2, 3, 10, 11)
LONG_NCOMPS = (1, 2)


def _spacing(i):
    return LONG_DMIN + (LONG_DMAX - LONG_DMIN) * ((i * 3) % 7) / 6.0


def make_long_swc(soma_pts, n_long, layout):
    """Soma (1 point or chain 1-2-3) + neurites attached to the last soma point: the long one is a chain of
    n_long traced points, a short one a chain of 2; nearly equal spacing, generic directions and radii."""
    rows = []  # (id, type, parent)
    for i in range(1, soma_pts + 1):
        rows.append((i, 1, i - 1 if i > 1 else -1))
    for kind, t in LONG_LAYOUTS[layout]:
        par = soma_pts
        for _ in range(n_long if kind == "long" else 2):
            rows.append((len(rows) + 1, t, par))
            par = len(rows)
    pos = {1: (0.0, 0.0, 0.0)}
    lines = []
    for i, t, p in rows:
        if p > 0:
            z = ((i * 0.6180339887) % 1.0) * 1.6 - 0.8
            th = 2.399963229 * i
            c = math.sqrt(1 - z * z)
            L = SOMA_LEN[i - 1] if i <= soma_pts else _spacing(i)
            pos[i] = tuple(a + L * b for a, b in zip(pos[p], (c * math.cos(th), c * math.sin(th), z)))
        r = SOMA_RAD[i - 1] if i <= soma_pts else RAD[(i * 4 + n_long) % len(RAD)]
        x, y, zz = pos[i]
        lines.append(f"{i} {t} {x:.4f} {y:.4f} {zz:.4f} {r:.4f} {p}")
    return "\n".join(lines) + "\n"


def long_grid(soma_pts, n_long):
    """max_branch_len in {None, below the point spacing, just above it} + for k in (2,3,10,11) the smallest round value with which
    a cut of the long section into k parts with (almost) equally many traced segments fits (for the section's
    number of segments S this needs exactly k pieces whenever ceil(S/(k-1)) > ceil(S/k)); x ncomp {1,2}."""
    nseg = n_long if soma_pts == 3 else n_long - 1  # the gap to a single-point soma has no length
    mbls = [None, LONG_BELOW_SPACING, round(LONG_DMAX * 1.03, 4)]  # .., just above the spacing: one segment per piece
    for k in LONG_PIECES:
        if 2 <= k <= nseg:
            v = round(-(-nseg // k) * LONG_DMAX * 1.03, 4)
            if v not in mbls:
                mbls.append(v)
    return [{"ncomp": nc, "max_branch_len": mbl, "min_radius": None} for mbl in mbls for nc in LONG_NCOMPS]


def long_files():
    out = []
    for soma_pts in (1, 3):
        for n_long in LONG_N:
            for layout in LONG_LAYOUTS:
                out.append({"swc": make_long_swc(soma_pts, n_long, layout), "family": "long_section",
                            "soma_pts": soma_pts, "n_long": n_long, "layout": layout,
                            "grid": long_grid(soma_pts, n_long)})
    return out


def option_grid():
    return [
        {"ncomp": nc, "max_branch_len": mbl, "min_radius": mr}
        for mbl in (None, MBL)
        for mr in (None, MIN_RADIUS)
        for nc in NCOMPS
    ]


def explore(ctx):
    files = files_of_tier(ctx.tier)
    ctx.note("files", len(files))
    longs = long_files()
    ctx.note("long_section_files", len(longs))
    ctx.note("long_section_reads", sum(len(f["grid"]) for f in longs))
    ctx.note("long_section_bound", f"soma {{1,3 points}} x long chain of n in {list(LONG_N)} traced points x layouts "
                                   f"{list(LONG_LAYOUTS)} x max_branch_len {{None, {LONG_BELOW_SPACING} (below spacing), "
                                   f"{round(LONG_DMAX * 1.03, 4)} (one segment per piece), fits {list(LONG_PIECES)} pieces}} x ncomp {list(LONG_NCOMPS)}")
    files = files + longs
    ctx.note("options_per_file", len(option_grid()))
    ctx.note("bound", "quick: trees <=6 points; thorough: <=8 points; soma {1 point, 3-point chain}; 4 type patterns; "
                      f"ncomp {list(NCOMPS)}; max_branch_len [None, {MBL}]; min_radius [None, {MIN_RADIUS}]")
    ctx.map("work", files)


# --------------------------------------------------------------------------- running the implementation
def _read_swc(text, ncomp, max_branch_len, min_radius):
    import jaxley as jx

    fd, path = tempfile.mkstemp(suffix=".swc", prefix=f"c16_{os.getpid()}_")
    try:
        with os.fdopen(fd, "w") as f:
            f.write(text)
        return jx.read_swc(path, ncomp=ncomp, max_branch_len=max_branch_len, min_radius=min_radius)
    finally:
        try:
            os.unlink(path)
        except OSError:
            pass


def observe(cell):
    """Plain description of what read_swc returned (public attributes only)."""
    nodes = cell.nodes
    bidx = np.asarray(nodes["global_branch_index"]).astype(int)
    length = np.asarray(nodes["length"], dtype=float)
    radius = np.asarray(nodes["radius"], dtype=float)
    parents = [int(p) for p in np.asarray(cell.comb_parents)]
    nb = len(parents)
    branches = []
    for b in range(nb):
        sel = np.where(bidx == b)[0]
        branches.append({"parent": parents[b], "length": float(np.sum(length[sel])), "radii": radius[sel].tolist(),
                         "comps": sel.tolist(), "groups": [], "partial_groups": []})
    for name, idx in cell.groups.items():
        idx = set(int(i) for i in np.asarray(idx).tolist())
        for b in branches:
            inter = idx & set(b["comps"])
            if inter and len(inter) == len(b["comps"]):
                b["groups"].append(name)
            elif inter:
                b["partial_groups"].append(name)
    return branches


def contract_junction(branches, ref):
    """If the reference needs a root junction and the implementation's root is a 0.1 um branch, remove it."""
    if not ref["root_junction"]:
        return branches, False
    roots = [i for i, b in enumerate(branches) if b["parent"] == -1]
    if len(roots) != 1 or abs(branches[roots[0]]["length"] - 0.1) > 1e-9:
        return branches, False
    j = roots[0]
    out = []
    remap = {}
    for i, b in enumerate(branches):
        if i != j:
            remap[i] = len(out)
            out.append(dict(b))
    for b in out:
        b["parent"] = -1 if b["parent"] in (j, -1) else remap[b["parent"]]
    return out, True


def _file_class(ref):
    rows = ref["rows"]
    ntypes = sorted({r["type"] for r in rows if r["type"] != 1})
    if len(rows) == 1:
        soma = "file_with_one_point"
    elif ref["single_point_soma"]:
        soma = "single_point"
    else:
        soma = "three_point"
    return soma, ntypes


def _where(exc):
    tb = traceback.extract_tb(exc.__traceback__)
    fr = [f for f in tb if "/jaxley/" in f.filename]
    return fr[-1].name if fr else (tb[-1].name if tb else "?")


def _needs_mbl(vio, text, opts, nested):
    """Signature field `needs_max_branch_len`: does the same rule also fail without max_branch_len?
    `nested` is True (inner call: leave alone), False (find out by reading again without max_branch_len) or the
    set of rules that failed without max_branch_len (known to the caller)."""
    if nested is True or not vio:
        return vio
    keep = [v for v in vio if v["sig"].get("explained_by")]  # fully explained by a labelled defect: no further split
    vio = [v for v in vio if not v["sig"].get("explained_by")]
    return keep + _needs_mbl2(vio, text, opts, nested)


def _needs_mbl2(vio, text, opts, nested):
    if not vio:
        return vio
    if opts["max_branch_len"] is None:
        for v in vio:
            v["sig"]["needs_max_branch_len"] = False
        return vio
    if nested is False:
        plain, _ = check_one(text, opts["ncomp"], None, opts["min_radius"], _nested=True)
        rules = {v["sig"]["rule"] for v in plain}
    else:
        rules = set(nested)
    for v in vio:
        v["sig"]["needs_max_branch_len"] = v["sig"]["rule"] not in rules
    return vio


def check_one(text, ncomp, max_branch_len, min_radius, _nested=False):
    """Read `text` with the real reader and compare with the reference.
    Returns (violations, info); info has cover predicates, the observation and whether the case is non-trivial."""
    opts = {"ncomp": ncomp, "max_branch_len": max_branch_len, "min_radius": min_radius}
    wit = dict(opts, swc=text)
    ref = refswc.read(text)
    refs = [ref]
    soma, ntypes = _file_class(ref)
    if soma == "three_point":
        alt = refswc.read(text, drop_multipoint_soma_gap=True)
        refs.append(alt)
    base_sig = {"soma": soma}
    info = {"cover": [], "obs": None, "nontrivial": len(ref["sections"]) >= 2, "ok": False}
    try:
        cell = _read_swc(text, ncomp, max_branch_len, min_radius)
        raw = observe(cell)
    except Exception as e:  # the property promises a result for every well-formed file
        sig = dict(base_sig, rule="raises", exc=type(e).__name__, where=_where(e))
        vio = [{"sig": sig, "witness": wit, "msg": f"{type(e).__name__}: {str(e)[:200]}"}]
        return _needs_mbl(vio, text, opts, _nested), info
    info["obs"] = {"parents": [b["parent"] for b in raw], "lengths": [b["length"] for b in raw]}
    vio = []
    branches, contracted = contract_junction(raw, ref)
    # groups must partition the (non-junction) branches, with the documented names
    bad = [i for i, b in enumerate(branches) if len(b["groups"]) != 1 or b["partial_groups"]
           or b["groups"][0] not in refswc.TYPE_OF_GROUP]
    for b in branches:
        b["type"] = refswc.TYPE_OF_GROUP.get(b["groups"][0]) if len(b["groups"]) == 1 else None
    if bad:
        sig = dict(base_sig, rule="groups_not_a_partition")
        vio.append({"sig": sig, "witness": wit,
                    "msg": f"branches {bad} are not in exactly one documented group: "
                           f"{[(b['groups'], b['partial_groups']) for b in branches]}"})
    best, best_ref = -1, ref
    for r in refs:
        lv = 0
        for level in refswc.LEVELS:
            if not refswc.match(r, branches, ncomp, max_branch_len, min_radius, level):
                break
            lv += 1
        if lv > best:
            best, best_ref = lv, r
    if best == len(refswc.LEVELS):
        info["ok"] = True
        info["cover"] += _cover(best_ref, branches, opts, contracted)
        return _needs_mbl(vio, text, opts, _nested), info
    failed = refswc.LEVELS[best]
    secs = best_ref["sections"]
    tot_ref = sum(s["length"] for s in secs)
    tot_impl = sum(b["length"] for b in branches)
    sig = dict(base_sig)
    if failed == "structure":
        if max_branch_len is None and len(branches) != len(secs):
            sig["rule"] = "branch_count"
        elif abs(tot_ref - tot_impl) > 1e-9 * (1 + tot_ref):
            sig["rule"] = "branch_lengths" if max_branch_len is None else "total_length"
            ex = tot_impl - tot_ref
            if abs(ex - 1.0) < 1e-6:
                sig["excess"] = "1um"
            elif any(abs(ex - 2 * r["r"]) < 1e-6 for r in ref["rows"]):
                sig["excess"] = "2r_of_a_traced_point"
            else:
                sig["excess"] = "other"
        elif max_branch_len is None and not _same_multiset([s["length"] for s in secs], [b["length"] for b in branches]):
            sig["rule"] = "branch_lengths"
        else:
            sig["rule"] = "connectivity"
    elif failed == "types":
        sig["rule"] = "type_groups"
    elif failed == "radii":
        sig["rule"] = "radii"
    else:
        sig["rule"] = "max_branch_len_pieces"
    if failed in ("types", "radii"):
        # label consequences of two established defects (the hypothesis must explain the WHOLE observation)
        sig["explained_by"] = None
        for name, kw in HYPOTHESES:
            hyps = [refswc.read(text, **kw)]
            if soma == "three_point":
                hyps.append(refswc.read(text, drop_multipoint_soma_gap=True, **kw))
            if any(refswc.match(h, branches, ncomp, max_branch_len, min_radius, "split") for h in hyps):
                sig["explained_by"] = name
                break
        if sig["explained_by"] is None:  # unexplained: keep the class of the file in the signature
            sig["neurite_types"] = ">=2" if len(ntypes) >= 2 else "1"
            sig["root_junction"] = bool(ref["root_junction"])
    msg = (
        f"rule {sig['rule']}: reference sections {refswc.summary(best_ref)} (total {tot_ref:.6f}); read_swc gave "
        f"parents {[b['parent'] for b in branches]} lengths {[round(b['length'], 6) for b in branches]} "
        f"types {[b['type'] for b in branches]} radii {[np.round(b['radii'], 6).tolist() for b in branches]}"
        f"{' (junction contracted)' if contracted else ''}"
    )
    if failed == "radii":
        msg += f"; reference radius profiles {[(np.round(s['knots_s'], 4).tolist(), s['knots_r']) for s in secs]}"
    vio.append({"sig": sig, "witness": wit, "msg": msg})
    return _needs_mbl(vio, text, opts, _nested), info


def _same_multiset(a, b):
    a, b = sorted(a), sorted(b)
    return len(a) == len(b) and all(abs(x - y) <= 1e-9 * (1 + abs(x)) for x, y in zip(a, b))


def _cover(ref, branches, opts, contracted):
    cov = ["agrees_with_reference"]
    secs = ref["sections"]
    soma, ntypes = _file_class(ref)
    if soma == "three_point":
        cov.append("agrees_with_reference:three_point_soma")
    if len(ntypes) >= 2:
        cov.append("agrees_with_reference:two_neurite_types")
    mbl, mr = opts["max_branch_len"], opts["min_radius"]
    if mbl is not None and any(s["length"] > mbl for s in secs) and len(branches) > len(secs):
        cov.append("max_branch_len_split_agrees")
    if mr is not None:
        below = above = False
        for s in secs:
            r = refswc.comp_radii(s, 0.0, s["length"], opts["ncomp"], None)
            below |= bool(np.any(r < mr))
            above |= bool(np.any(r > mr))
        if below and above and mbl is None:
            cov.append("min_radius_clips")
    if contracted:
        cov.append("root_junction_contracted")
    if mbl is not None:
        for s_ in secs:
            if s_["zero_length"] or s_["length"] <= mbl:
                continue
            need = min_pieces(s_["segs"], mbl)
            if need in LONG_PIECES:
                cov.append(f"section_needing_{need}_pieces")
            if len(s_["segs"]) >= 11 and (need is None or need > 10):
                cov.append("section_needing_more_than_10_pieces")
                if any(t_["type"] != s_["type"] and t_["points"][0] > s_["points"][-1] for t_ in secs):
                    cov.append("section_needing_more_than_10_pieces:followed_by_other_type")
    return cov


def min_pieces(segs, mbl):
    """Smallest number of pieces, cut at traced points, with every piece <= mbl (None if a segment is longer)."""
    if any(d > mbl for d in segs):
        return None
    n, acc = 1, 0.0
    for d in segs:
        if acc + d > mbl:
            n, acc = n + 1, 0.0
        acc += d
    return n


def file_cover(ref):
    """Coverage predicates of the file itself (independent of the implementation)."""
    rows = ref["rows"]
    typ = {r["id"]: r["type"] for r in rows}
    kids = {r["id"]: [] for r in rows}
    for r in rows:
        if r["parent"] > 0:
            kids[r["parent"]].append(r["id"])
    cov = []
    soma, ntypes = _file_class(ref)
    cov.append({"single_point": "single_point_soma", "three_point": "three_point_soma",
                "file_with_one_point": "file_with_one_point"}[soma])
    for i, ks in kids.items():
        if typ[i] != 1 and len(ks) == 1 and typ[ks[0]] != typ[i]:
            cov.append("type_change_mid_path")
        if typ[i] != 1 and len(ks) >= 2 and any(typ[k] != typ[i] for k in ks):
            cov.append("type_change_at_branch_point")
        if len(ks) >= 3:
            cov.append("branch_point_with_3_children")
        if typ[i] == 1 and len({typ[k] for k in ks if typ[k] != 1}) >= 2:
            cov.append("two_neurite_types_at_soma")
    soma_kids = {typ[k] for i, ks in kids.items() if typ[i] == 1 for k in ks if typ[k] != 1}
    if len(soma_kids) >= 2:
        cov.append("two_neurite_types_at_soma")
    if soma == "three_point":
        if any(typ[k] != 1 for k in kids[2]):
            cov.append("neurite_on_middle_soma_point")
        if any(typ[k] != 1 for k in kids[1]):
            cov.append("neurite_on_first_soma_point")
    if ref["root_junction"]:
        cov.append("root_junction")
    if any(s["zero_length"] for s in ref["sections"]):
        cov.append("zero_length_section")
    if any(s["length"] > MBL for s in ref["sections"]):
        cov.append("max_branch_len_split")
    if any(len(s["segs"]) >= 11 for s in ref["sections"]):
        cov.append("section_with_11_or_more_segments")
    return sorted(set(cov))


def _invariance(text, obs_by_opts):
    """Lengths and connectivity must not depend on ncomp (implementation against itself)."""
    vio = []
    ref = refswc.read(text)
    soma, _ = _file_class(ref)
    groups = {}
    for (nc, mbl, mr) in obs_by_opts:
        groups.setdefault((mbl, mr), []).append(nc)
    for (mbl, mr), ncs in groups.items():
        ncs = sorted(ncs)
        if True:
            base = obs_by_opts[(ncs[0], mbl, mr)]
            for nc in ncs[1:]:
                o = obs_by_opts[(nc, mbl, mr)]
                same = o["parents"] == base["parents"] and len(o["lengths"]) == len(base["lengths"]) and all(
                    abs(a - b) <= 1e-9 * (1 + abs(a)) for a, b in zip(o["lengths"], base["lengths"])
                )
                if not same:
                    sig = {"rule": "ncomp_invariance", "soma": soma, "needs_max_branch_len": mbl is not None}
                    wit = {"swc": text, "ncomp": ncs[0], "ncomp_b": nc, "max_branch_len": mbl, "min_radius": mr}
                    vio.append({"sig": sig, "witness": wit, "msg": f"ncomp={ncs[0]}: {base}; ncomp={nc}: {o}"})
    return vio


def work(item):
    text = item["swc"]
    out = {"digests": [], "cover": [], "refusals": [], "violations": [], "evals": 0}
    ref = refswc.read(text)
    out["cover"] += file_cover(ref)
    obs = {}
    plain_rules = {}
    for o in item.get("grid") or option_grid():  # max_branch_len=None comes first
        out["evals"] += 1
        key = (o["ncomp"], o["min_radius"])
        vio, info = check_one(text, o["ncomp"], o["max_branch_len"], o["min_radius"],
                              _nested=False if o["max_branch_len"] is None else plain_rules[key])
        if o["max_branch_len"] is None:
            plain_rules[key] = sorted({v["sig"]["rule"] for v in vio})
        out["violations"] += vio
        out["cover"] += info["cover"]
        if info["obs"] is not None:
            obs[(o["ncomp"], o["max_branch_len"], o["min_radius"])] = info["obs"]
        if info["nontrivial"]:
            out["digests"].append(digest([text, o]))
    out["violations"] += _invariance(text, obs)
    out["cover"] = sorted(set(out["cover"]))
    out["sample"] = {"swc": text, "tree": item.get("parents"), "pattern": item.get("pattern"),
                     "family": item.get("family", "trees"), "reference_sections": refswc.summary(ref)}
    return out


def replay(w):
    vio, info = check_one(w["swc"], w["ncomp"], w["max_branch_len"], w["min_radius"])
    if "ncomp_b" in w:
        obs = {}
        if info["obs"] is not None:
            obs[(w["ncomp"], w["max_branch_len"], w["min_radius"])] = info["obs"]
        v2, info2 = check_one(w["swc"], w["ncomp_b"], w["max_branch_len"], w["min_radius"])
        if info2["obs"] is not None:
            obs[(w["ncomp_b"], w["max_branch_len"], w["min_radius"])] = info2["obs"]
        vio = [v for v in _invariance(w["swc"], obs) if v["witness"]["ncomp_b"] == w["ncomp_b"]] + vio
    return vio
