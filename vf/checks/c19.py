"""C19 — any editing history leaves a consistent module that simulates its tables.

Explicit-state BFS (vf.explorer) from four non-trivial initial states over ~30 concrete operations each;
invariants I1–I8, I10, I11 on every reached state (I8/I10/I11 are frame conditions: delete_* / delete_channel through a
view and connect change only the rows they denote), I9 (integrate == reference simulator built from the displayed
tables) on every distinct state up to the simulation depth.
"""
from __future__ import annotations

import collections

import numpy as np

from vf import build, canon, explorer, refsim
from vf.runner import digest

ID = "C19"
LEVEL = "model_checking"
RULE = (
    "BFS from six initial states (the 2-cell network with recordings of membrane and synaptic states, stimuli and clamps inserted in "
    "non-ascending target order; a cell with one uniform channel on which set_ncomp is accepted, with groups; irregular cell with Na+K on overlapping branch sets; same cell with HH on a subset; 2-cell network "
    "with two synapse types; 2-cell network whose cells carried different channel sets before assembly) over the operation alphabet {insert/delete of channels sharing columns, set, set_ncomp, add_to_group, "
    "record, delete_recordings, stimulate, clamp, delete_stimuli, delete_clamps, make_trainable, delete_trainables, connect, init_states} "
    "on small views, depth 2 (quick) / 3 (thorough); replay from scratch per history; canonical snapshot hashing merges commuting "
    "histories; invariants on every state, integrate-vs-tables reference on every distinct state (depth<=1 quick for all inits, "
    "depth 2 for the first; all for thorough)"
)
REQUIRED_COVER = ["channel_delete_confinement_checked", "heterogeneous_network", "confined_delete_with_items_outside_view", "synaptic_state_of_interleaved_edge_recorded", "delete_with_shared_column_owner_remaining", "delete_undoes_insert", "set_ncomp_with_group", "network_connect",
                  "stale_reference_observed", "simulated_with_clamp", "simulated_with_synapse"]
ASSUMPTIONS = [
    "weaker readings (DESIGN C19): a recording/clamp/trainable naming a state of a channel deleted *afterwards* refers to an existing row; "
    "integrate raising on such a state is a refusal; num_trainable_params (print-only counter) is not a table",
    "integrate is called with default params (simulates the tables, not the trainables)",
    "frame conditions I8/I10/I11 read 'tables stay consistent with the editing history' as: delete_* / delete_channel through a view and "
    "connect change only the rows they denote (rows outside the view, and the synapse rows that existed before a connect, keep every value)",
]
SIG_INIT = False
EXPAND_BROKEN_STATES = False
T = 3
DT = 0.025


# ------------------------------------------------------------------ initial states
def _cell_nak():
    from jaxley.channels import K, Na

    c = build.cell_of([-1, 0, 0], [2, 1, 3])
    c.branch([0, 1]).insert(Na())
    c.branch([1, 2]).insert(K())
    return c


def _cell_hh():
    from jaxley.channels import HH, Leak

    c = build.cell_of([-1, 0, 0], [2, 1, 3])
    c.branch([0, 2]).insert(HH())
    c.insert(Leak())
    c.branch(1).add_to_group("g")
    return c


def _cell_uni():
    """One channel everywhere with uniform values, so that set_ncomp is accepted on every branch (it refuses branches whose channel
    columns are not uniform); a group on a whole branch and on part of another, and per-branch radii."""
    from jaxley.channels import HH

    c = build.cell_of([-1, 0, 0], [2, 2, 3])
    c.insert(HH())
    for b, r in enumerate([1.5, 0.8, 1.1]):
        c.branch(b).set("radius", r)
    c.branch(1).add_to_group("g")
    c.branch(2).comp(0).add_to_group("g")
    c.branch(0).add_to_group("h")
    return c


def _net2():
    J = build.jx()
    from jaxley.channels import HH
    from jaxley.connect import connect
    from jaxley.synapses import IonotropicSynapse, TestSynapse

    net = J.Network([build.cell_of([-1, 0], [2, 1]), build.cell_of([-1, 0, 0], [2, 1, 1])])
    net.insert(HH())
    # five edges with interleaved types [T, I, T, I, T] and distinct per-edge states/conductances, so that the global edge index,
    # the rank within the type and "index minus first edge of the type" all differ for the later edges
    c = lambda ci, bi, ki: net.cell(ci).branch(bi).comp(ki)
    connect(c(0, 0, 0), c(1, 1, 0), TestSynapse())
    connect(c(1, 0, 1), c(0, 1, 0), IonotropicSynapse())
    connect(c(0, 0, 1), c(1, 0, 0), TestSynapse())
    connect(c(0, 1, 0), c(1, 2, 0), IonotropicSynapse())
    connect(c(1, 2, 0), c(0, 0, 0), TestSynapse())
    for gi, (k, x) in enumerate([("TestSynapse_c", 0.15), ("IonotropicSynapse_s", 0.3), ("TestSynapse_c", 0.45),
                                 ("IonotropicSynapse_s", 0.6), ("TestSynapse_c", 0.75)]):
        net.select(edges=[gi]).set(k, x)
        net.select(edges=[gi]).set("TestSynapse_gC" if k.startswith("Test") else "IonotropicSynapse_gS", 2e-4 * (gi + 1))
    return net


def _net_het():
    """Cells that carry different channel sets *before* they are assembled into a network (the flag columns of the network's
    node table are then produced by the concatenation, not by insert) and have different shapes."""
    J = build.jx()
    from jaxley.channels import HH, K, Leak, Na
    from jaxley.connect import connect
    from jaxley.synapses import IonotropicSynapse

    a = build.cell_of([-1, 0], [2, 1])
    a.branch(0).insert(HH())
    a.insert(Leak())
    b = build.cell_of([-1, 0, 0], [1, 2, 1])
    b.branch([0, 1]).insert(Na())
    b.branch([1, 2]).insert(K())
    net = J.Network([a, b])
    connect(net.cell(0).branch(0).comp(1), net.cell(1).branch(1).comp(0), IonotropicSynapse())
    return net


def _net2_rec():
    """net2 with recordings of membrane AND synaptic states everywhere (compartment indices and global edge indices overlap as
    numbers), a stimulus and clamps inserted in non-ascending target order: the state from which partial deletions through views start."""
    net = _net2()
    net.record("v", verbose=False)
    net.IonotropicSynapse.record("IonotropicSynapse_s", verbose=False)
    net.TestSynapse.record("TestSynapse_c", verbose=False)
    net.cell(1).branch(2).comp(0).stimulate(0.07 * _j().ones(T), verbose=False)
    net.cell(0).branch(0).comp(1).stimulate(0.11 * _j().ones(T), verbose=False)
    net.cell(1).branch(0).comp(0).stimulate(0.05 * _j().ones(T), verbose=False)
    net.cell(1).branch(1).comp(0).clamp("v", -61.0 * _j().ones(T), verbose=False)
    net.cell(0).branch(1).comp(0).clamp("v", -66.0 * _j().ones(T), verbose=False)
    net.cell(1).branch(0).comp(1).clamp("v", -63.0 * _j().ones(T), verbose=False)
    # clamps of synaptic states (their targets are global EDGE indices, which overlap with compartment indices as numbers)
    net.IonotropicSynapse.edge(1).clamp("IonotropicSynapse_s", 0.45 * _j().ones(T), verbose=False)
    net.TestSynapse.edge(1).clamp("TestSynapse_c", 0.25 * _j().ones(T), verbose=False)
    net.TestSynapse.edge(0).clamp("TestSynapse_c", 0.65 * _j().ones(T), verbose=False)
    return net


INITS = {"cell_nak": _cell_nak, "cell_hh": _cell_hh, "net2": _net2, "net_het": _net_het, "cell_uni": _cell_uni, "net2_rec": _net2_rec}


def _j():
    import jax.numpy as jnp

    return jnp


def _ch(name):
    import jaxley.channels as C

    return getattr(C, name)()


def _connect(m, pre, post, syn):
    from jaxley.connect import connect
    import jaxley.synapses as S

    connect(m.cell(pre[0]).branch(pre[1]).comp(pre[2]), m.cell(post[0]).branch(post[1]).comp(post[2]), getattr(S, syn)())


OPS = collections.OrderedDict()
# --- cell ops
OPS["ins_Leak_b0"] = lambda m: m.branch(0).insert(_ch("Leak"))
OPS["ins_Km_all"] = lambda m: m.insert(_ch("Km"))
OPS["ins_CaL_b2"] = lambda m: m.branch(2).insert(_ch("CaL"))
OPS["ins_CaT_b2c0"] = lambda m: m.branch(2).comp(0).insert(_ch("CaT"))
OPS["ins_HH_b1"] = lambda m: m.branch(1).insert(_ch("HH"))
OPS["del_Na_all"] = lambda m: m.delete_channel(_ch("Na"))
OPS["del_Na_b0"] = lambda m: m.branch(0).delete_channel(_ch("Na"))
OPS["del_K_b1"] = lambda m: m.branch(1).delete_channel(_ch("K"))
OPS["del_K_all"] = lambda m: m.delete_channel(_ch("K"))
OPS["del_Km_all"] = lambda m: m.delete_channel(_ch("Km"))
OPS["del_CaL_b2"] = lambda m: m.branch(2).delete_channel(_ch("CaL"))
OPS["del_CaT_b2c0"] = lambda m: m.branch(2).comp(0).delete_channel(_ch("CaT"))
OPS["del_HH_b1"] = lambda m: m.branch(1).delete_channel(_ch("HH"))
OPS["del_HH_all"] = lambda m: m.delete_channel(_ch("HH"))
OPS["del_Leak_b0"] = lambda m: m.branch(0).delete_channel(_ch("Leak"))
OPS["set_vt_b1"] = lambda m: m.branch(1).set("vt", -55.0)
OPS["set_rad_b2c1"] = lambda m: m.branch(2).comp(1).set("radius", 2.0)
OPS["set_v_b0"] = lambda m: m.branch(0).set("v", -65.0)
OPS["ncomp_b1_2"] = lambda m: m.branch(1).set_ncomp(2)
OPS["ncomp_b2_1"] = lambda m: m.branch(2).set_ncomp(1)
OPS["group_b0"] = lambda m: m.branch(0).add_to_group("g")
OPS["group_b2c2"] = lambda m: m.branch(2).comp(2).add_to_group("g")
OPS["rec_v_b2"] = lambda m: m.branch(2).record("v", verbose=False)
OPS["rec_Nam_b0c0"] = lambda m: m.branch(0).comp(0).record("Na_m", verbose=False)
OPS["rec_iK_b1"] = lambda m: m.branch(1).record("i_K", verbose=False)
OPS["rec_HHm_b0c1"] = lambda m: m.branch(0).comp(1).record("HH_m", verbose=False)
OPS["delrec_all"] = lambda m: m.delete_recordings()
OPS["delrec_b2"] = lambda m: m.branch(2).delete_recordings()
OPS["stim_b0c0"] = lambda m: m.branch(0).comp(0).stimulate(0.1 * _j().ones(T), verbose=False)
OPS["stim_b2"] = lambda m: m.branch(2).stimulate(0.05 * _j().ones(T), verbose=False)
OPS["clamp_v_b1"] = lambda m: m.branch(1).clamp("v", -60.0 * _j().ones(T), verbose=False)
OPS["clamp_Kn_b2c0"] = lambda m: m.branch(2).comp(0).clamp("K_n", 0.5 * _j().ones(T), verbose=False)
OPS["delstim_all"] = lambda m: m.delete_stimuli()
OPS["delstim_b2"] = lambda m: m.branch(2).delete_stimuli()
OPS["delclamp_all"] = lambda m: m.delete_clamps()
OPS["delclamp_b1"] = lambda m: m.branch(1).delete_clamps()
OPS["train_gNa_all"] = lambda m: m.make_trainable("Na_gNa", verbose=False)
OPS["train_rad_branches"] = lambda m: m.branch("all").make_trainable("radius", verbose=False)
OPS["train_gK_b1"] = lambda m: m.branch(1).make_trainable("K_gK", verbose=False)
OPS["deltrain_all"] = lambda m: m.delete_trainables()
OPS["deltrain_b0"] = lambda m: m.branch(0).delete_trainables()
OPS["init_states"] = lambda m: m.init_states()
# --- network ops
OPS["n_connect_I"] = lambda m: _connect(m, (0, 0, 1), (1, 2, 0), "IonotropicSynapse")
OPS["n_connect_T"] = lambda m: _connect(m, (1, 1, 0), (0, 0, 0), "TestSynapse")
OPS["n_connect_Tanh"] = lambda m: _connect(m, (0, 1, 0), (1, 0, 0), "TanhRateSynapse")
OPS["n_set_gS"] = lambda m: m.IonotropicSynapse.set("IonotropicSynapse_gS", 5e-4)
OPS["n_set_gC_e0"] = lambda m: m.TestSynapse.edge(0).set("TestSynapse_gC", 7e-4)
OPS["n_ins_Leak_c1"] = lambda m: m.cell(1).insert(_ch("Leak"))
OPS["n_del_HH_c0"] = lambda m: m.cell(0).delete_channel(_ch("HH"))
OPS["n_del_Leak_c1"] = lambda m: m.cell(1).delete_channel(_ch("Leak"))
OPS["n_set_rad_c1b0"] = lambda m: m.cell(1).branch(0).set("radius", 1.7)
OPS["n_group_c0"] = lambda m: m.cell(0).add_to_group("exc")
OPS["n_rec_v_c1"] = lambda m: m.cell(1).record("v", verbose=False)
OPS["n_rec_s_I0"] = lambda m: m.IonotropicSynapse.edge(0).record("IonotropicSynapse_s", verbose=False)
OPS["n_rec_c_T0"] = lambda m: m.TestSynapse.edge(0).record("TestSynapse_c", verbose=False)
OPS["n_rec_c_T1"] = lambda m: m.TestSynapse.edge(1).record("TestSynapse_c", verbose=False)
OPS["n_rec_s_I1"] = lambda m: m.IonotropicSynapse.edge(1).record("IonotropicSynapse_s", verbose=False)
OPS["n_clamp_c_T1"] = lambda m: m.TestSynapse.edge(1).clamp("TestSynapse_c", 0.55 * _j().ones(T), verbose=False)
OPS["n_train_s_I1"] = lambda m: m.IonotropicSynapse.edge(1).make_trainable("IonotropicSynapse_s", verbose=False)
OPS["n_delrec_all"] = lambda m: m.delete_recordings()
OPS["n_delrec_c1"] = lambda m: m.cell(1).delete_recordings()
OPS["n_stim_c0"] = lambda m: m.cell(0).branch(0).comp(0).stimulate(0.1 * _j().ones(T), verbose=False)
OPS["n_clamp_v_c1b1"] = lambda m: m.cell(1).branch(1).clamp("v", -62.0 * _j().ones(T), verbose=False)
OPS["n_clamp_s_I0"] = lambda m: m.IonotropicSynapse.edge(0).clamp("IonotropicSynapse_s", 0.4 * _j().ones(T), verbose=False)
OPS["n_delstim_all"] = lambda m: m.delete_stimuli()
OPS["n_delclamp_all"] = lambda m: m.delete_clamps()
OPS["n_delclamp_c1"] = lambda m: m.cell(1).delete_clamps()
OPS["n_train_gS"] = lambda m: m.IonotropicSynapse.make_trainable("IonotropicSynapse_gS", verbose=False)
OPS["n_train_rad_c0"] = lambda m: m.cell(0).make_trainable("radius", verbose=False)
OPS["n_deltrain_all"] = lambda m: m.delete_trainables()
OPS["n_init_states"] = lambda m: m.init_states()

# --- heterogeneous network ops (channel sets differ between the cells)
OPS["h_del_HH_c0b0c0"] = lambda m: m.cell(0).branch(0).comp(0).delete_channel(_ch("HH"))
OPS["h_del_HH_c0"] = lambda m: m.cell(0).delete_channel(_ch("HH"))
OPS["h_del_Leak_c0b1"] = lambda m: m.cell(0).branch(1).delete_channel(_ch("Leak"))
OPS["h_del_Na_c1b0"] = lambda m: m.cell(1).branch(0).delete_channel(_ch("Na"))
OPS["h_del_K_c1"] = lambda m: m.cell(1).delete_channel(_ch("K"))
OPS["h_del_Leak_c1"] = lambda m: m.cell(1).delete_channel(_ch("Leak"))
OPS["h_ins_Leak_c1"] = lambda m: m.cell(1).insert(_ch("Leak"))
OPS["h_ins_HH_c1b2"] = lambda m: m.cell(1).branch(2).insert(_ch("HH"))
OPS["h_ins_K_c0b1"] = lambda m: m.cell(0).branch(1).insert(_ch("K"))
OPS["h_set_gNa_c1b1"] = lambda m: m.cell(1).branch(1).set("Na_gNa", 0.07)
OPS["h_rec_HHm_c0b0c1"] = lambda m: m.cell(0).branch(0).comp(1).record("HH_m", verbose=False)
OPS["h_clamp_Kn_c1b2"] = lambda m: m.cell(1).branch(2).clamp("K_n", 0.4 * _j().ones(T), verbose=False)
OPS["h_train_gLeak_c0"] = lambda m: m.cell(0).make_trainable("Leak_gLeak", verbose=False)
_HET = [k for k in OPS if k.startswith("h_")] + ["n_set_rad_c1b0", "n_group_c0", "n_rec_v_c1", "n_delrec_all", "n_stim_c0", "n_clamp_v_c1b1",
                                                 "n_delclamp_all", "n_deltrain_all", "n_init_states", "n_connect_I"]

OPS["u_ncomp_b0_3"] = lambda m: m.branch(0).set_ncomp(3)
OPS["u_ncomp_b0_1"] = lambda m: m.branch(0).set_ncomp(1)
OPS["u_ncomp_b1_1"] = lambda m: m.branch(1).set_ncomp(1)
OPS["u_ncomp_b1_4"] = lambda m: m.branch(1).set_ncomp(4)
OPS["u_ncomp_b2_2"] = lambda m: m.branch(2).set_ncomp(2)
OPS["u_ncomp_b2_4"] = lambda m: m.branch(2).set_ncomp(4)
_UNI = [k for k in OPS if k.startswith("u_")] + ["group_b0", "group_b2c2", "rec_v_b2", "delrec_all", "stim_b0c0", "stim_b2", "clamp_v_b1", "delstim_b2",
                                                 "delclamp_b1", "train_rad_branches", "deltrain_b0", "init_states", "set_v_b0", "rec_HHm_b0c1"]

OPS["n_delrec_I1"] = lambda m: m.IonotropicSynapse.edge(1).delete_recordings()
OPS["n_delrec_T"] = lambda m: m.TestSynapse.delete_recordings()
OPS["n_delrec_c0"] = lambda m: m.cell(0).delete_recordings()
OPS["n_delstim_c1b0"] = lambda m: m.cell(1).branch(0).delete_stimuli()
OPS["n_delstim_c0"] = lambda m: m.cell(0).delete_stimuli()
OPS["n_delclamp_c1b0"] = lambda m: m.cell(1).branch(0).delete_clamps()
OPS["n_delclamp_c0"] = lambda m: m.cell(0).delete_clamps()
OPS["n_delclamp_I"] = lambda m: m.IonotropicSynapse.delete_clamps()
OPS["n_delclamp_T1"] = lambda m: m.TestSynapse.edge(1).delete_clamps()
OPS["n_delclamp_T1_named"] = lambda m: m.TestSynapse.edge(1).delete_clamps("TestSynapse_c")

_CELL_COMMON = ["ins_Leak_b0", "ins_Km_all", "ins_CaL_b2", "ins_CaT_b2c0", "set_rad_b2c1", "set_v_b0", "ncomp_b1_2", "ncomp_b2_1",
                "group_b0", "group_b2c2", "rec_v_b2", "delrec_all", "delrec_b2", "stim_b0c0", "stim_b2", "clamp_v_b1", "delstim_all",
                "delstim_b2", "delclamp_all", "delclamp_b1", "train_rad_branches", "deltrain_all", "deltrain_b0", "init_states",
                "del_Km_all", "del_CaL_b2", "del_CaT_b2c0", "del_Leak_b0"]
OPS_FOR = {
    "cell_nak": _CELL_COMMON + ["del_Na_all", "del_Na_b0", "del_K_b1", "del_K_all", "set_vt_b1", "rec_Nam_b0c0", "rec_iK_b1",
                                "clamp_Kn_b2c0", "train_gNa_all", "train_gK_b1"],
    "cell_hh": _CELL_COMMON + ["ins_HH_b1", "del_HH_b1", "del_HH_all", "rec_HHm_b0c1"],
    "net2": [k for k in OPS if k.startswith("n_")],
    "net_het": _HET,
    "cell_uni": _UNI,
}
OPS_FOR["net2_rec"] = list(OPS_FOR["net2"])
UNDOES = {
    "del_Km_all": "ins_Km_all", "del_CaL_b2": "ins_CaL_b2", "del_CaT_b2c0": "ins_CaT_b2c0", "del_HH_b1": "ins_HH_b1",
    "del_Leak_b0": "ins_Leak_b0", "n_del_Leak_c1": "n_ins_Leak_c1", "h_del_Leak_c1": "h_ins_Leak_c1",
    "delrec_all": "rec_v_b2", "delrec_b2": "rec_v_b2", "delstim_all": "stim_b0c0", "delstim_b2": "stim_b2",
    "delclamp_all": "clamp_v_b1", "delclamp_b1": "clamp_v_b1", "deltrain_all": "train_rad_branches",
    "n_delrec_all": "n_rec_v_c1", "n_delrec_c1": "n_rec_v_c1", "n_delstim_all": "n_stim_c0", "n_delclamp_all": "n_clamp_v_c1b1",
    "n_delclamp_c1": "n_clamp_v_c1b1", "n_deltrain_all": "n_train_gS",
}
# undo pairs are only exact when the module had nothing of that kind before
_KIND = {"rec": "recordings", "stim": "externals", "clamp": "externals", "train": "trainable_params"}

_hash_cache = {}


def _owners(m):
    own = collections.defaultdict(list)
    for c in m.channels:
        for k in list(c.channel_params) + list(c.channel_states):
            own[k].append(c._name)
    return own


def invariants(m, hist, parent_hash=None, hash_=None, item=None):
    errs = []
    nd = m.nodes
    N = len(nd)
    # I1 contiguous indices
    if list(nd.index) != list(range(N)):
        errs.append(("I1_indices", "row_index_not_range", f"index {list(nd.index)[:10]}"))
    if list(nd["global_comp_index"]) != list(range(N)):
        errs.append(("I1_indices", "global_comp_index_not_contiguous", ""))
    gb = nd["global_branch_index"].to_numpy()
    if list(np.repeat(np.arange(len(m.ncomp_per_branch)), m.ncomp_per_branch)) != list(gb):
        errs.append(("I1_indices", "branch_index_vs_ncomp_per_branch", f"{list(gb)} vs {list(m.ncomp_per_branch)}"))
    for lvl in ("cell", "branch", "comp"):
        col = nd[f"local_{lvl}_index"].to_numpy()
        if (col < 0).any():
            errs.append(("I1_indices", f"negative_local_{lvl}_index", ""))
    # I2 channel columns / registries
    for c in m.channels:
        if c._name not in nd.columns:
            errs.append(("I2_channels", "flag_column_missing", c._name))
        elif not nd[c._name].astype(bool).any():
            errs.append(("I2_channels", "registered_but_nowhere_present", c._name))
    last = hist[-1] if hist else ""
    after = "delete_channel" if "del_" in last and not any(x in last for x in ("delrec", "delstim", "delclamp", "deltrain")) else (
        "set_ncomp" if "ncomp" in last else "other")
    for k, own in _owners(m).items():
        if k not in nd.columns:
            errs.append(("I2_channels", f"param_column_missing_after_{after}", f"{k} owned by {own}"))
            continue
        present = np.zeros(N, bool)
        for o in own:
            if o in nd.columns:
                present |= nd[o].to_numpy().astype(bool)
        nn = ~nd[k].isna().to_numpy()
        if (present & ~nn).any():
            errs.append(("I2_channels", f"param_NaN_where_owner_present_after_{after}", f"{k} rows {np.where(present & ~nn)[0].tolist()} owners {own}"))
        if (~present & nn).any():
            errs.append(("I2_channels", f"param_set_where_no_owner_after_{after}", f"{k} rows {np.where(~present & nn)[0].tolist()}"))
    cur = sorted(set(c.current_name for c in m.channels))
    if sorted(m.membrane_current_names) != cur:
        errs.append(("I2_channels", f"current_registry_after_{after}", f"{sorted(m.membrane_current_names)} vs channels' {cur}"))
    # I3 recordings refer to existing rows
    ne = len(m.edges)
    if len(m.recordings):
        comp_states, edge_states = m._get_state_names()
        for ri, st in zip(m.recordings.rec_index, m.recordings.state):
            if st in edge_states:
                if not (0 <= ri < ne):
                    errs.append(("I3_recordings", "edge_index_out_of_range", f"{st}@{ri}"))
            elif not (0 <= ri < N):
                errs.append(("I3_recordings", "comp_index_out_of_range", f"{st}@{ri}"))
        if m.recordings.duplicated().any():
            errs.append(("I3_recordings", "duplicates", ""))
    # I4 externals
    if set(m.externals) != set(m.external_inds):
        errs.append(("I4_externals", "keys_differ", ""))
    else:
        _, edge_states = m._get_state_names()
        for k in m.externals:
            if np.asarray(m.externals[k]).shape[0] != len(np.asarray(m.external_inds[k])):
                errs.append(("I4_externals", "rows_vs_inds", k))
            lim = ne if k in edge_states else N
            ii = np.asarray(m.external_inds[k])
            if len(ii) and ((ii >= lim).any() or (ii < 0).any()):
                errs.append(("I4_externals", "index_out_of_range", f"{k} {ii.tolist()} limit {lim}"))
    # I5 groups
    for g, v in m.groups.items():
        v = np.asarray(v)
        if len(v) and ((v >= N).any() or (v < 0).any()):
            errs.append(("I5_groups", f"index_out_of_range_after_{after}", f"{g}: {v.tolist()} N={N}"))
    # I6 trainables
    if len(m.trainable_params) != len(m.indices_set_by_trainables):
        errs.append(("I6_trainables", "lists_differ_in_length", ""))
    else:
        for p, i in zip(m.trainable_params, m.indices_set_by_trainables):
            k = list(p)[0]
            ii = np.asarray(i)
            lim = ne if k in m.edges.columns and k not in nd.columns else N
            if ii.size and (ii >= lim).any():
                errs.append(("I6_trainables", "index_out_of_range", f"{k} {ii.tolist()}"))
            if np.asarray(list(p.values())[0]).shape[0] != ii.shape[0]:
                errs.append(("I6_trainables", "values_vs_groups", k))
    # I8 deletions through a view are confined to the view
    if hist and hist[-1] in CONFINED and item is not None:
        par = _grandparent_hash(item["init"], hist[:-1])
        if par is not None:
            errs += _confined_delete(hist[-1], item["init"], hist[:-1], m)
    # I10 delete_channel through a view leaves every row outside the view untouched
    if hist and hist[-1] in CONFINED_CH and item is not None:
        errs += _confined_channel_delete(hist[-1], item["init"], hist[:-1], m)
    # I11 connect appends rows: the rows that existed before keep everything that was set on them
    if hist and "connect" in hist[-1] and item is not None:
        errs += _connect_frame(item["init"], hist[:-1], m)
    # I12 set_ncomp keeps every group on the branches it was on (groups are stored as row numbers and must be shifted)
    if hist and "ncomp" in hist[-1] and item is not None and m.groups:
        errs += _groups_after_set_ncomp(item["init"], hist[:-1], m)
    # I7 deletions undo their insertions
    if len(hist) >= 2 and UNDOES.get(hist[-1]) == hist[-2] and item is not None:
        gp = _grandparent_hash(item["init"], hist[:-2])
        if gp is not None and _undo_is_exact(hist[-1], gp[2]) and gp[0] != hash_:
            d = canon.diff(gp[2], canon.snapshot(m))
            errs.append(("I7_undo", f"{_opkind(hist[-1])}_does_not_undo", f"differs at {d[:5]}"))
    return errs


CONFINED = {
    "delrec_b2": ("rec", lambda m: m.branch(2)), "delstim_b2": ("stim", lambda m: m.branch(2)),
    "delclamp_b1": ("clamp", lambda m: m.branch(1)), "deltrain_b0": ("train", lambda m: m.branch(0)),
    "n_delrec_c1": ("rec", lambda m: m.cell(1)), "n_delclamp_c1": ("clamp", lambda m: m.cell(1)),
    "n_delrec_I1": ("rec", lambda m: m.IonotropicSynapse.edge(1)), "n_delrec_T": ("rec", lambda m: m.TestSynapse),
    "n_delrec_c0": ("rec", lambda m: m.cell(0)), "n_delstim_c1b0": ("stim", lambda m: m.cell(1).branch(0)),
    "n_delstim_c0": ("stim", lambda m: m.cell(0)), "n_delclamp_c1b0": ("clamp", lambda m: m.cell(1).branch(0)),
    "n_delclamp_c0": ("clamp", lambda m: m.cell(0)),
    "n_delclamp_I": ("clamp", lambda m: m.IonotropicSynapse), "n_delclamp_T1": ("clamp", lambda m: m.TestSynapse.edge(1)),
}


CONFINED_CH = {
    "del_Na_b0": lambda m: m.branch(0), "del_K_b1": lambda m: m.branch(1), "del_CaL_b2": lambda m: m.branch(2),
    "del_CaT_b2c0": lambda m: m.branch(2).comp(0), "del_HH_b1": lambda m: m.branch(1), "del_Leak_b0": lambda m: m.branch(0),
    "n_del_HH_c0": lambda m: m.cell(0), "n_del_Leak_c1": lambda m: m.cell(1),
    "h_del_HH_c0b0c0": lambda m: m.cell(0).branch(0).comp(0), "h_del_HH_c0": lambda m: m.cell(0),
    "h_del_Leak_c0b1": lambda m: m.cell(0).branch(1), "h_del_Na_c1b0": lambda m: m.cell(1).branch(0),
    "h_del_K_c1": lambda m: m.cell(1), "h_del_Leak_c1": lambda m: m.cell(1),
}


def _confined_channel_delete(op, init, parent_hist, m):
    """Reference semantics of view.delete_channel: rows outside the view keep every flag, parameter and state they had."""
    import sys

    mod = sys.modules[__name__]
    parent = explorer.replay(mod, init, parent_hist)
    try:
        rows = set(int(i) for i in CONFINED_CH[op](parent)._nodes_in_view)
    except Exception:
        return []
    outside = [i for i in range(len(parent.nodes)) if i not in rows]
    if not outside or len(parent.nodes) != len(m.nodes):
        return []
    errs = []
    name = _opkind(op) and (op[2:] if op[:2] in ("n_", "h_") else op).split("_")[1]
    for col in parent.nodes.columns:
        before = parent.nodes.loc[outside, col].to_numpy()
        if before.dtype == object:
            before = np.asarray([float(x) if x is not None else np.nan for x in before])
        if not np.issubdtype(before.dtype, np.number) and before.dtype != bool:
            continue
        before = before.astype(float)
        if col not in m.nodes.columns:
            bad = [outside[j] for j in np.where(~np.isnan(before) & (before != 0))[0]]
            if bad:
                errs.append(("I10_confined_channel_delete", "column_removed_while_set_outside_view", f"{col} (deleting {name}) had values on rows {bad} outside the view {sorted(rows)}"))
            continue
        after = m.nodes.loc[outside, col].to_numpy()
        after = np.asarray([float(x) if x is not None else np.nan for x in after]) if after.dtype == object else after.astype(float)
        if not np.array_equal(before, after, equal_nan=True):
            bad = [outside[j] for j in np.where(~((before == after) | (np.isnan(before) & np.isnan(after))))[0]]
            errs.append(("I10_confined_channel_delete", "rows_outside_view_changed", f"{col} (deleting {name}) changed on rows {bad} outside the view {sorted(rows)}"))
    return errs


def _groups_after_set_ncomp(init, parent_hist, m):
    import sys

    mod = sys.modules[__name__]
    parent = explorer.replay(mod, init, parent_hist)

    def per_branch(mm):
        nd = mm.nodes
        out = {}
        for g, v in mm.groups.items():
            rows = [int(i) for i in np.asarray(v) if 0 <= int(i) < len(nd)]
            cnt = collections.Counter(int(nd.loc[i, "global_branch_index"]) for i in rows)
            full = {b: int((nd["global_branch_index"] == b).sum()) for b in cnt}
            out[g] = {b: ("whole" if cnt[b] == full[b] else "part") for b in cnt}
        return out

    before, after = per_branch(parent), per_branch(m)
    changed = [b for b, (x, y) in enumerate(zip(parent.ncomp_per_branch, m.ncomp_per_branch)) if x != y]
    errs = []
    for g in before:
        want = dict(before[g])
        for b in changed:
            if b in want:
                want[b] = "whole"  # a group containing (part of) the modified branch contains all of its new compartments
        if after.get(g) != want:
            errs.append(("I12_groups_after_set_ncomp", "group_moved_to_other_rows", f"group {g}: branches {after.get(g)} expected {want}"))
    return errs


def _connect_frame(init, parent_hist, m):
    import sys

    mod = sys.modules[__name__]
    parent = explorer.replay(mod, init, parent_hist)
    errs = []
    for what, before, after in (("edges", parent.edges, m.edges.iloc[: len(parent.edges)]), ("nodes", parent.nodes, m.nodes)):
        if len(after) != len(before):
            errs.append(("I11_connect_frame", f"{what}_rows_lost", f"{len(before)} -> {len(after)}"))
            continue
        for col in before.columns:
            if col == "controlled_by_param":
                continue
            if col not in after.columns:
                errs.append(("I11_connect_frame", f"{what}_column_lost", col))
                continue
            a, b = before[col].to_numpy(), after[col].to_numpy()
            try:
                same = np.array_equal(a.astype(float), b.astype(float), equal_nan=True)
            except (TypeError, ValueError):
                same = list(a) == list(b)
            if not same:
                errs.append(("I11_connect_frame", f"existing_{what}_rows_changed", f"{col}: {a.tolist()} -> {b.tolist()}"))
    return errs


def _confined_delete(op, init, parent_hist, m):
    """Reference semantics of delete_* through a view: exactly the items that belong to the view's compartments go away."""
    import sys

    mod = sys.modules[__name__]
    kind, viewfn = CONFINED[op]
    parent = explorer.replay(mod, init, parent_hist)
    try:
        pv = viewfn(parent)
        rows = set(int(i) for i in pv._nodes_in_view)
        erows = set(int(i) for i in pv._edges_in_view)
    except Exception:
        return []
    errs = []
    comp_states, edge_states = parent._get_state_names()
    if kind == "rec":
        before = [(str(s), int(i)) for s, i in zip(parent.recordings.state, parent.recordings.rec_index)] if len(parent.recordings) else []
        want = [(s, i) for s, i in before if (i not in erows if s in edge_states else i not in rows)]
        got = [(str(s), int(i)) for s, i in zip(m.recordings.state, m.recordings.rec_index)] if len(m.recordings) else []
        lost = [x for x in want if x not in got]
        kept = [x for x in got if x not in want]
        if lost:
            errs.append(("I8_confined_delete", "delete_recordings_removed_rows_outside_view", f"lost {lost} (view rows {sorted(rows)})"))
        if kept:
            errs.append(("I8_confined_delete", "delete_recordings_kept_rows_inside_view", f"kept {kept}"))
    elif kind in ("stim", "clamp"):
        for k in parent.externals:
            if (k == "i") != (kind == "stim"):
                continue
            bi = [int(i) for i in np.asarray(parent.external_inds[k])]
            want = [i for i in bi if i not in (erows if k in edge_states else rows)]
            got = [int(i) for i in np.asarray(m.external_inds.get(k, []))]
            if sorted(want) != sorted(got):
                errs.append(("I8_confined_delete", f"delete_{kind}_not_confined_to_view", f"{k}: before {bi}, view rows {sorted(rows)}, after {got}"))
            else:
                # every survivor keeps ITS OWN data row (index array and data array stay aligned)
                bd = np.asarray(parent.externals[k], float)
                pairs_before = sorted((i, tuple(np.round(bd[j], 12))) for j, i in enumerate(bi) if i in want)
                ad = np.asarray(m.externals[k], float) if k in m.externals else np.zeros((0, 0))
                pairs_after = sorted((i, tuple(np.round(ad[j], 12))) for j, i in enumerate(got))
                if pairs_before != pairs_after:
                    errs.append(("I8_confined_delete", f"delete_{kind}_misaligns_surviving_rows",
                                 f"{k}: surviving (target, first sample) before {[(i, d[0]) for i, d in pairs_before]} after {[(i, d[0]) for i, d in pairs_after]}"))
    elif kind == "train":
        before = [(list(p)[0], np.asarray(i).tolist()) for p, i in zip(parent.trainable_params, parent.indices_set_by_trainables)]
        got = [(list(p)[0], np.asarray(i).tolist()) for p, i in zip(m.trainable_params, m.indices_set_by_trainables)]
        for key, inds in before:
            flat = [x for r in inds for x in (r if isinstance(r, list) else [r]) if x >= 0]
            if key in parent.nodes.columns and not any(x in rows for x in flat):
                if (key, inds) not in got:
                    errs.append(("I8_confined_delete", "delete_trainables_removed_param_outside_view", f"{key} {inds}"))
    return errs


def _undo_is_exact(del_op, snap):
    """A delete_* only has to restore the state before its insert-like partner if nothing of that kind existed before
    (otherwise the delete legitimately removes the earlier items too)."""
    kind = _opkind(del_op)
    if kind == "delrec":
        return not snap["recordings"]["cols"]
    if kind == "delstim":
        return "i" not in snap["externals"]
    if kind == "delclamp":
        return not [k for k in snap["externals"] if k != "i"]
    if kind == "deltrain":
        return not snap["trainable_params"]
    if kind == "del":
        name = del_op[2:].split("_")[1] if del_op[:2] in ("n_", "h_") else del_op.split("_")[1]
        return name not in snap["channels"]
    return True


def _opkind(op):
    op = op[2:] if op[:2] in ("n_", "h_") else op
    return op.split("_")[0]


def _grandparent_hash(init, hist):
    """(hash, exact?, snapshot) of the state before the insert/delete pair; exact only if nothing of that kind pre-existed."""
    import sys

    mod = sys.modules[__name__]
    key = (init, tuple(hist))
    if key not in _hash_cache:
        try:
            m = explorer.replay(mod, init, hist)
        except Exception:
            _hash_cache[key] = None
            return None
        snap = canon.snapshot(m)
        _hash_cache[key] = (canon.hash_of(snap), True, snap)
    return _hash_cache[key]


def cover_of(m, hist):
    out = []
    last = hist[-1]
    if last in CONFINED_CH:
        out.append("channel_delete_confinement_checked")
    if last.startswith("h_"):
        out.append("heterogeneous_network")
    if last in CONFINED and (len(m.recordings) or m.externals or m.trainable_params):
        out.append("confined_delete_with_items_outside_view")
    if last in UNDOES and len(hist) >= 2 and UNDOES[last] == hist[-2]:
        out.append("delete_undoes_insert")
    if "del_" in last and not last.startswith(("n_", "h_")) and last.split("_")[1] in ("Na", "K", "Km", "CaL", "CaT"):
        shared = {"Na": ["vt"], "K": ["vt", "eK"], "Km": ["eK"], "CaL": ["eCa"], "CaT": ["eCa"]}[last.split("_")[1]]
        own = _owners(m)
        if any(k in own for k in shared):
            out.append("delete_with_shared_column_owner_remaining")
    if "ncomp" in last and m.groups:
        out.append("set_ncomp_with_group")
    if "connect" in last:
        out.append("network_connect")
    return out


# ------------------------------------------------------------------ I9: integrate vs displayed tables
def _stale(m):
    """Weaker reading: recordings/externals naming a state that no longer exists (channel deleted afterwards)."""
    comp_states, edge_states = m._get_state_names()
    known = set(comp_states) | set(edge_states)
    stale = [s for s in (list(m.recordings.state) if len(m.recordings) else []) if s not in known]
    stale += [k for k in m.externals if k not in known and k != "i"]
    nd = m.nodes
    if len(m.recordings):
        for ri, st in zip(m.recordings.rec_index, m.recordings.state):
            if st in nd.columns and st not in ("v",) and 0 <= ri < len(nd) and np.isnan(float(nd.loc[ri, st])) :
                stale.append(f"{st}@{ri}")
    for k, ii in m.external_inds.items():
        if k in nd.columns and k != "v":
            for i in np.asarray(ii):
                if np.isnan(float(nd.loc[int(i), k])):
                    stale.append(f"clamp {k}@{i}")
    return stale


def simulate_state(m, hist):
    import copy

    import jaxley as jx

    res = {"errs": [], "refusals": [], "cover": [], "digests": []}
    mm = copy.deepcopy(m)
    stale = _stale(mm)
    if stale:
        res["cover"].append("stale_reference_observed")
    try:
        # fixed suffix request: record v everywhere (duplicates of earlier v recordings are dropped by record(), so a
        # state name can reappear in the table after rows of other states)
        mm.record("v", verbose=False)
        kw = {} if mm.externals else {"t_max": (T - 1) * DT + DT / 2}
        backend = "jax.sparse"
        got = np.asarray(jx.integrate(mm, delta_t=DT, voltage_solver=backend, **kw))
    except Exception as e:
        if stale:
            res["refusals"].append("integrate_refused_stale_reference")
        else:
            res["errs"].append(("I9_simulate", "integrate_raised", f"{type(e).__name__}: {str(e)[:200]}"))
        return res
    try:
        model = refsim.model_from_module(mm)
        comp_states, edge_states = mm._get_state_names()
        for k, arr in mm.externals.items():
            ii = np.asarray(mm.external_inds[k])
            arr = np.asarray(arr)
            for j, i in enumerate(ii):
                if k == "i":
                    model["stimuli"].append({"comp": int(i), "current": arr[j]})
                else:
                    model["clamps"].append({"state": k, "index": int(i), "values": arr[j]})
        ref = refsim.simulate(model, DT, T)
    except Exception as e:
        res["errs"].append(("I9_simulate", "reference_cannot_represent_tables", f"{type(e).__name__}: {str(e)[:200]}"))
        return res
    rows = list(zip(mm.recordings.state, mm.recordings.rec_index))
    if got.shape != (len(rows), T + 1):
        res["errs"].append(("I9_simulate", "output_shape", f"{got.shape} vs {(len(rows), T+1)}"))
        return res
    for r, (st, ri) in enumerate(rows):
        ri = int(ri)
        if st in edge_states:
            if st.startswith("i_"):
                cands = [ref["syn_currents"][ri]]
            else:
                cands = [ref["syn_states"][ri][st]]
        elif st in ref:
            cands = [ref[st][:, ri]]
        else:
            continue
        if st.startswith("i_"):
            continue  # current convention (pre/post solve) is C08's business
        want = cands[0]
        if np.isnan(want).any():
            continue  # stale row (state absent there): observation only
        err = float(np.max(np.abs(got[r] - want) / (1 + np.abs(want))))
        if not np.isfinite(err) or err > 1e-7:
            res["errs"].append(("I9_simulate", "row_differs_from_tables", f"row {r} {st}@{ri}: rel err {err}; got {got[r].tolist()} want {want.tolist()}"))
            break
    res["digests"].append(digest(np.round(got, 7).tolist()))
    if len(mm.edges) and any(st in edge_states and int(ri) > 1 for st, ri in rows):
        res["cover"].append("synaptic_state_of_interleaved_edge_recorded")
    if any(k != "i" for k in mm.externals):
        res["cover"].append("simulated_with_clamp")
    if len(mm.edges):
        res["cover"].append("simulated_with_synapse")
    return res


def want_sim(init, hist, sim_depth):
    """quick (sim_depth=1): all depth<=1 states, and depth-2 states of the first initial state; thorough: depth<=2 everywhere."""
    if len(hist) <= sim_depth:
        return True
    return sim_depth == 1 and init == "cell_nak" and len(hist) == 2


def expand(item):
    import sys

    return explorer.expand_item(sys.modules[__name__], item)


def simulate(item):
    import sys

    return explorer.simulate_item(sys.modules[__name__], item)


def explore(ctx):
    import sys

    mod = sys.modules[__name__]
    depth = 2 if ctx.tier == "quick" else 3
    ctx.note("depth", depth)
    ctx.note("alphabet_sizes", {k: len(v) for k, v in OPS_FOR.items()})
    sim_depth = 1 if ctx.tier == "quick" else 2
    ctx.note("simulated_to_depth", sim_depth)
    explorer.bfs(ctx, mod, list(INITS), depth, sim_depth=sim_depth, expand_chunk=12)


def replay(w):
    import sys

    mod = sys.modules[__name__]
    hist = list(w["history"])
    if w.get("phase") == "simulate":
        return explorer.simulate_item(mod, {"states": [{"init": w["init"], "hist": hist}]})["violations"]
    r = explorer.expand_item(mod, {"init": w["init"], "hist": hist[:-1], "ops": [hist[-1]]})
    return r["violations"]
