"""C14 -- init_states() puts every gating variable at the fixed point of its own update rule.

Three layers, all through real jaxley code:
  kernel  real Channel.init_state -> real Channel.update_states on EVERY voltage of the alphabet over [-120, 60]
          (dyadic lattice + ulp neighbourhoods of the special points), every kinetic parameter setting, default and renamed;
  module  real 3-compartment jx.Branch: every non-empty insertion subset (7 per channel, 49 per pair of channels, incl.
          pairs sharing vt / eK / eCa, the same class twice, renamed channels), per-compartment voltages (incl. singular
          ones) and per-compartment parameters, real module.init_states(), then the fixed-point rule per row, the
          "module wrote exactly what the channel's init_state yields for this row" rule and the untouched rule
          (.nodes before/after);
  wide    one long real jx.Branch whose compartments carry the WHOLE voltage alphabet (partial insertion pattern), real
          module.init_states(), same rules -- so every lattice voltage also passes through the module path.
"""
from __future__ import annotations

import itertools

import numpy as np

from vf import kinlattice as kl
from vf import refkin
from vf.runner import digest

ID = "C14"
LEVEL = "exploration"
RULE = (
    "enumerate channels {HH, Na, K, Km, CaL, CaT, Leak} (default name, change_name'd, constructor-named), pairs of "
    "channels per compartment (Na+K share vt, K+Km share eK, CaL+CaT share eCa, Na+Na2 same class twice, HH+Na, Km+CaT) x "
    "every non-empty insertion subset of a 3-compartment branch (7 resp. 49) x parameter valuations (uniform defaults; "
    "per-compartment distinct values from the vt/taumax/vx alphabets) x voltage triples (each compartment at a singular "
    "voltage of its own channel/parameters; generic; interval ends and the doubles next to a singular voltage); plus the "
    "whole voltage alphabet of [-120,60] (dyadic lattice 2^-4 / 2^-10, +-64 ulp float64/float32 neighbourhoods) through "
    "the real Channel.init_state and through module.init_states() on a long branch; after the real init_states() one real "
    "update_states per dt in {.025,1,1e3}; distinct = (layer, channel configuration, subsets, valuation, voltage triple) "
    "resp. (mechanism, gate, parameter setting, regime bucket, dt), non-trivial if the initialised value differs from "
    "the 0.2 default"
)
REQUIRED_COVER = [
    "partial_insertion",
    "inserted_into_more_compartments_after_init_states",
    "two_channels_sharing_param",
    "renamed_channel",
    "voltage_at_singularity",
    "per_compartment_parameters",
    "whole_lattice_through_module",
] + [f"mech:{m}" for m in ["HH", "Na", "K", "Km", "CaL", "CaT"]]
ASSUMPTIONS = [
    "'unchanged' is read as |update(x) - x| <= 1e-12 (absolute, states are in [0,1]); measured rounding floor 2e-16",
    "the fixed point is that of the channel's OWN update rule (no reference kinetics enter the verdict; vf.refkin is "
    "used only to derive the special voltages and to bucket failures into regimes)",
    "3-compartment branch for the exhaustive insertion subsets; the whole voltage lattice goes through the module on one "
    "long branch with the insertion pattern 'two of every three compartments'",
    "voltage triples on the 3-compartment branch are a fixed list (singular / generic / ends+neighbours), not the cube "
    "of the lattice: init_states treats rows independently, which the per-row rule with distinct voltages and "
    "parameters per compartment checks directly",
    "thorough tier: the long branch uses the 2^-7 lattice (the 2^-10 lattice goes through the kernel layer)",
]

LO, HI = -120.0, 60.0
DTS = [0.025, 1.0, 1e3]
TOL_FP = 1e-12
SENTINEL = 0.3125  # value the gate columns hold before init_states (dyadic, not a default)
GENERIC = [-65.0625, -33.25, 20.5]
CHANNELS = ["HH", "Na", "K", "Km", "CaL", "CaT"]

# single-channel configurations: (mech, how, name)
SINGLES = [(m, "default", None) for m in CHANNELS + ["Leak"]] + [(m, "change_name", "X") for m in CHANNELS] + [
    ("Na", "ctor", "e"), ("K", "change_name", "vK"), ("CaT", "ctor", "a_b"), ("Km", "change_name", "HH2")]
PAIRS = [
    [("Na", "default", None), ("K", "default", None)],          # share vt
    [("K", "default", None), ("Km", "default", None)],          # share eK (and current name i_K)
    [("CaL", "default", None), ("CaT", "default", None)],       # share eCa (and current name i_Ca)
    [("Na", "default", None), ("Na", "change_name", "Na2")],    # same class twice: share vt and eNa
    [("HH", "default", None), ("Na", "change_name", "X")],      # two per compartment, nothing shared
    [("Km", "ctor", "M"), ("CaT", "default", None)],            # both in (x_inf, tau) form
]
SUBSETS = [list(s) for r in (1, 2, 3) for s in itertools.combinations(range(3), r)]


def chan_name(spec):
    return spec[2] or spec[0]


def make_channel(spec):
    mech, how, name = spec
    if how == "default":
        return kl.instance(mech, fresh=True)
    if how == "ctor":
        return kl.instance(mech, name, fresh=True)
    return kl.instance(mech, fresh=True).change_name(name)


# ----------------------------------------------------------------------------- enumeration
def _items(tier):
    items = []
    for mech in CHANNELS:
        for p in refkin.psets(mech):
            for how, name in (("default", None), ("change_name", "X")):
                items.append({"kind": "kernel", "spec": [mech, how, name], "p": p, "tier": tier})
    for spec in SINGLES:
        for s in SUBSETS:
            items.append({"kind": "module", "specs": [list(spec)], "subsets": [s]})
    for pair in PAIRS:
        for s1 in SUBSETS:
            for s2 in SUBSETS:
                items.append({"kind": "module", "specs": [list(x) for x in pair], "subsets": [s1, s2]})
    for mech in CHANNELS:
        for p in refkin.psets(mech):
            items.append({"kind": "wide", "specs": [[mech, "default", None]], "p": p, "tier": tier})
    items.append({"kind": "wide", "specs": [["Na", "default", None], ["K", "change_name", "X"]], "p": {"vt": -50.5}, "tier": tier})
    items.append({"kind": "wide", "specs": [["Km", "change_name", "X"], ["CaT", "default", None]],
                  "p": {"taumax": 100.0, "vx": 0.0}, "tier": tier})
    return items


def explore(ctx):
    items = _items(ctx.tier)
    ctx.note("items", {k: sum(1 for i in items if i["kind"] == k) for k in ("kernel", "module", "wide")})
    ctx.note("voltage_interval", [LO, HI])
    ctx.note("lattice_step", f"2^-{kl.log2step(ctx.tier)}")
    ctx.note("dts", DTS)
    ctx.note("tolerance_fixed_point", TOL_FP)
    ctx.note("parameter_alphabets", refkin.KIN_ALPHABET)
    ctx.note("insertion_subsets", SUBSETS)
    ctx.map("work", items)


def _new_out():
    return {"evals": 0, "digests": [], "cover": [], "refusals": [], "violations": []}


def _viol(sig, wit, msg):
    return {"sig": sig, "witness": wit, "msg": msg}


# ----------------------------------------------------------------------------- the per-row rule (shared by all layers)
def fixed_point_rule(inst, mech, name, x0, v, params_local, out, wit, tag, max_wit=2, want_digests=True, pkey=None):
    """x0: dict state key -> array (values after init), v array, params_local: local name -> array.
    Runs the real update_states for every dt and judges |new - x0| <= TOL_FP and finiteness."""
    gates = refkin.MECHS[mech]["gates"]
    skeys = refkin.state_keys(mech, name)
    pk = refkin.param_keys(mech, name)
    n = len(v)
    wits = wit if isinstance(wit, list) else None
    tags = tag if isinstance(tag, list) else None
    params = {pk[k]: np.asarray(a, dtype=np.float64) for k, a in params_local.items()}
    kin = refkin.MECHS[mech]["kin"]
    # regime bucket per row (parameters may differ per row)
    regs = {}
    for g in gates:
        r = np.zeros(n, np.int8)
        combos = {tuple(float(params_local[k][i]) for k in kin) for i in range(n)} if kin else {()}
        for c in combos:
            p = dict(zip(kin, c))
            sel = np.ones(n, bool)
            for k, val in p.items():
                sel &= np.asarray(params_local[k]) == val
            r[sel] = kl.regimes(mech, g, np.asarray(v)[sel], p, kl.BAND64)
        regs[g] = r
        if np.any(r == 3):
            out["cover"].append("voltage_at_singularity")
    missing = [g for g in gates if skeys[g] not in x0]
    for g in missing:
        out["violations"].append(_viol({"rule": "state_not_initialised", "mech": mech, "gate": g},
                                       wits[0] if wits else wit,
                                       f"{tags[0] if tags else tag}: init_state did not return {skeys[g]}"))
    gates = [g for g in gates if g not in missing]
    st = {skeys[g]: np.asarray(x0[skeys[g]], dtype=np.float64) for g in gates}
    # non-finite initial values
    for g in gates:
        bad = ~np.isfinite(st[skeys[g]])
        for rg in np.unique(regs[g][bad]):
            m = bad & (regs[g] == rg)
            i = int(np.nonzero(m)[0][0])
            out["violations"].append(_viol(
                {"rule": "finite", "mech": mech, "gate": g, "regime": kl.REGIME_NAMES[int(rg)]},
                dict(wits[i] if wits else wit, row=i, v=kl.fnum(v[i]), gate=g),
                f"{tags[i] if tags else tag}: {name}_{g} = {float(st[skeys[g]][i])!r} after init at v={float(v[i])!r} "
                f"params={ {k: float(a[i]) for k, a in params_local.items() if k in kin} } ({int(m.sum())} of {n} rows)"))
    if not gates:
        return
    for dt in DTS:
        try:
            # states of *all* gates are handed over (a NaN in one gate does not affect the others)
            full = {skeys[g]: st.get(skeys[g], np.full(n, 0.2)) for g in refkin.MECHS[mech]["gates"]}
            got = kl.run_update(inst, full, dt, np.asarray(v, dtype=np.float64), params, jit=False)
        except Exception as e:
            out["violations"].append(_viol({"rule": "raises", "mech": mech, "call": "update_states", "exc": type(e).__name__},
                                           wits[0] if wits else wit, f"{tags[0] if tags else tag}: update_states raised {type(e).__name__}: {e}"[:300]))
            return
        out["evals"] += n * len(gates)
        for g in gates:
            x = st[skeys[g]]
            new = np.asarray(got[skeys[g]], dtype=np.float64)
            fin = np.isfinite(x)
            d = np.abs(np.where(fin, new - x, 0.0))
            bad = fin & ~(d <= TOL_FP)
            for rg in np.unique(regs[g][bad]):
                m = bad & (regs[g] == rg)
                idx = np.nonzero(m)[0]
                dm = np.where(m, np.where(np.isfinite(d), d, np.inf), -1.0)
                for i in list(dict.fromkeys([int(idx[0]), int(np.argmax(dm))]))[:max_wit]:
                    out["violations"].append(_viol(
                        {"rule": "fixed_point", "mech": mech, "gate": g, "regime": kl.REGIME_NAMES[int(rg)]},
                        dict(wits[i] if wits else wit, row=i, v=kl.fnum(v[i]), gate=g, dt=dt),
                        f"{tags[i] if tags else tag}: {name}_{g} after init = {float(x[i])!r}, one update_states(dt={dt}) at the same "
                        f"v={float(v[i])!r} gives {float(new[i])!r} (moves by {float(d[i]):.3e}); "
                        f"params={ {k: float(a[i]) for k, a in params_local.items() if k in kin} } ({int(m.sum())} of {n} rows)"))
            if want_digests:
                for rg in np.unique(regs[g]):
                    sel = (regs[g] == rg) & fin
                    if sel.any() and np.any(np.abs(x[sel] - 0.2) > 1e-9):
                        out["digests"].append(digest([(tags[0] if tags else tag).split(":")[0], mech, name, g, pkey, int(rg), dt]))


# ----------------------------------------------------------------------------- kernel layer
def kernel_layer(spec, p, v, out, wit):
    mech = spec[0]
    inst = make_channel(spec)
    name = chan_name(spec)
    n = len(v)
    params = kl.full_params(mech, name, p, n, np.float64)
    skeys = refkin.state_keys(mech, name)
    states = {k: np.full(n, 0.2) for k in skeys.values()}
    try:
        x0 = kl.run_init_state(inst, states, np.asarray(v, dtype=np.float64), params)
    except Exception as e:
        out["violations"].append(_viol({"rule": "raises", "mech": mech, "call": "init_state", "exc": type(e).__name__}, wit,
                                       f"kernel:{name}: init_state raised {type(e).__name__}: {e}"[:300]))
        return
    out["evals"] += n
    local = {k: np.full(n, val) for k, val in dict(refkin.defaults(mech), **p).items()}
    fixed_point_rule(inst, mech, name, x0, v, local, out, wit, f"kernel:{name}", pkey=p)
    out["cover"].append(f"mech:{mech}")
    if spec[1] != "default":
        out["cover"].append("renamed_channel")


# ----------------------------------------------------------------------------- module layers
def valuation(specs, ncomp, which):
    """local parameter values per channel and compartment.  which=0: defaults; 1: per-compartment distinct values for
    the kinetic parameters (shared parameters get ONE value per compartment, as in the module)."""
    shared = {}
    out = []
    for spec in specs:
        mech = spec[0]
        d = {k: np.full(ncomp, val, dtype=np.float64) for k, val in refkin.defaults(mech).items()}
        if which == 1:
            for k in refkin.MECHS[mech]["kin"]:
                alph = refkin.KIN_ALPHABET[k]
                d[k] = np.asarray([alph[(i + (1 if k == "vt" else 0)) % len(alph)] for i in range(ncomp)], dtype=np.float64)
        for k, sh, _ in refkin.MECHS[mech]["params"]:
            if sh:
                if k in shared:
                    d[k] = shared[k]
                else:
                    shared[k] = d[k]
        out.append(d)
    return out


def voltage_triples(specs, subsets, vals, ncomp=3):
    """[(tag, v array)]: A each compartment at a singular voltage of a channel it contains (own parameters), cycling
    through the list by compartment; B generic; C interval ends and the doubles next to a singular voltage."""
    sing = []
    for i in range(ncomp):
        s = []
        for spec, sub, val in zip(specs, subsets, vals):
            if i in sub:
                p = {k: float(val[k][i]) for k in refkin.MECHS[spec[0]]["kin"]}
                for vs in refkin.singular_voltages(spec[0], p).values():
                    s += [x for x in vs if LO <= x <= HI]
        sing.append(s)
    A = np.asarray([sing[i][i % len(sing[i])] if sing[i] else GENERIC[i] for i in range(ncomp)])
    A2 = np.asarray([sing[i][(i + 1) % len(sing[i])] if sing[i] else GENERIC[(i + 1) % 3] for i in range(ncomp)])
    B = np.asarray(GENERIC[:ncomp])
    C = np.asarray([LO, HI, np.nextafter(sing[2][0], np.inf) if sing[2] else -47.0625][:ncomp])
    out = [("singular", A), ("generic", B), ("ends", C)]
    if not np.array_equal(A, A2):
        out.insert(1, ("singular2", A2))
    return out


def nodes_equal(a, b):
    if a.dtype == object or b.dtype == object:
        return np.asarray([(x == y) or (x != x and y != y) for x, y in zip(a, b)])
    a = np.asarray(a)
    b = np.asarray(b)
    if a.dtype.kind == "f" or b.dtype.kind == "f":
        return (a == b) | (np.isnan(a.astype(float)) & np.isnan(b.astype(float)))
    return a == b


def close_or_both_nan(a, b, rtol=1e-12):
    a = np.asarray(a, dtype=np.float64)
    b = np.asarray(b, dtype=np.float64)
    with np.errstate(all="ignore"):
        return (np.abs(a - b) <= rtol * np.abs(b)) | (np.isnan(a) & np.isnan(b)) | (a == b)


def _view(module, rows, views):
    key = tuple(rows)
    if key not in views:
        views[key] = module.comp(list(rows))
    return views[key]


def module_case(module, channels, specs, subsets, vals, v, out, wit, tag, acc, views):
    """Set voltages/parameters/sentinels with the public API, call the real init_states(), judge."""
    ncomp = len(v)
    module.set("v", np.asarray(v, dtype=np.float64))
    keyrows = {}
    for spec, sub, val in zip(specs, subsets, vals):
        mech, name = spec[0], chan_name(spec)
        for k in refkin.MECHS[mech]["kin"]:
            e = keyrows.setdefault(refkin.key_of(mech, name, k), [set(), val[k]])
            e[0] |= set(sub)
        for g in refkin.MECHS[mech]["gates"]:
            _view(module, sub, views).set(f"{name}_{g}", SENTINEL)
    for key, (rows, arr) in keyrows.items():
        rows = sorted(rows)
        _view(module, rows, views).set(key, np.asarray(arr)[rows])
    before = module.nodes.copy()
    try:
        module.init_states()
    except Exception as e:
        out["violations"].append(_viol({"rule": "raises", "call": "init_states", "exc": type(e).__name__}, wit,
                                       f"{tag}: init_states raised {type(e).__name__}: {e}"[:300]))
        return
    out["evals"] += 1
    after = module.nodes
    # -- untouched: everything except the gate columns of inserted channels in their own rows
    written = {}
    for spec, sub in zip(specs, subsets):
        for g in refkin.MECHS[spec[0]]["gates"]:
            written[f"{chan_name(spec)}_{g}"] = set(sub)
    if list(before.columns) != list(after.columns) or len(before) != len(after):
        out["violations"].append(_viol({"rule": "untouched", "what": "table_shape"}, wit,
                                       f"{tag}: init_states changed the node table's columns/rows"))
        return
    for col in before.columns:
        eq = nodes_equal(before[col].to_numpy(), after[col].to_numpy())
        rows_changed = set(np.nonzero(~eq)[0].tolist()) - written.get(col, set())
        if rows_changed:
            kind = "gate_column_of_row_without_channel" if col in written else (
                "voltage" if col == "v" else "other_column")
            out["violations"].append(_viol({"rule": "untouched", "what": kind}, dict(wit, column=col),
                                           f"{tag}: init_states changed column {col!r} in rows {sorted(rows_changed)} "
                                           f"(channel rows: {sorted(written.get(col, []))})"))
    # -- per channel: collect the rows (judged by `judge_rows`, once per item, vectorised)
    for ci, (spec, sub, val) in enumerate(zip(specs, subsets, vals)):
        mech, name = spec[0], chan_name(spec)
        sub = list(sub)
        rec = acc.setdefault(ci, {"v": [], "local": [], "x0": [], "wit": [], "tag": []})
        rec["v"].append(np.asarray(v, dtype=np.float64)[sub])
        rec["local"].append({k: a[sub] for k, a in val.items()})
        rec["x0"].append({f"{name}_{g}": after[f"{name}_{g}"].to_numpy()[sub].astype(np.float64)
                          for g in refkin.MECHS[mech]["gates"]})
        rec["wit"] += [dict(wit, channel=name, comp=int(c)) for c in sub]
        rec["tag"] += [f"{tag}:{name}[comp {c}]" for c in sub]


def judge_rows(channels, specs, acc, out, pkey=None, want_digests=False):
    """Rows written with the channel's own init_state for their own voltage/parameters; fixed point."""
    for ci, rec in acc.items():
        ch, spec = channels[ci], specs[ci]
        mech, name = spec[0], chan_name(spec)
        gates = refkin.MECHS[mech]["gates"]
        vs = np.concatenate(rec["v"])
        local = {k: np.concatenate([d[k] for d in rec["local"]]) for k in rec["local"][0]}
        x0 = {k: np.concatenate([d[k] for d in rec["x0"]]) for k in rec["x0"][0]}
        wits, tags = rec["wit"], rec["tag"]
        if gates:
            pk = refkin.param_keys(mech, name)
            try:
                kx = kl.run_init_state(ch, {k: np.full(len(vs), SENTINEL) for k in x0}, vs, {pk[k]: a for k, a in local.items()})
            except Exception:
                kx = {}
            for g in gates:
                k = f"{name}_{g}"
                if k in kx:
                    same = close_or_both_nan(x0[k], kx[k])
                    if not same.all():
                        i = int(np.nonzero(~same)[0][0])
                        out["violations"].append(_viol(
                            {"rule": "row_gets_own_steady_state", "mech": mech, "gate": g}, dict(wits[i], gate=g),
                            f"{tags[i]}: {k} is {float(x0[k][i])!r}; the channel's init_state for this compartment's "
                            f"voltage {float(vs[i])!r} and parameters gives {float(np.asarray(kx[k])[i])!r} "
                            f"({int((~same).sum())} of {len(vs)} rows)"))
                elif not np.all(x0[k] == SENTINEL):
                    out["violations"].append(_viol({"rule": "untouched", "what": "state_not_returned_by_init_state"},
                                                   dict(wits[0], column=k), f"{tags[0]}: {k} changed although init_state does not return it"))
        x0 = {k: a for k, a in x0.items() if not np.all(a == SENTINEL)} if gates else {}
        fixed_point_rule(ch, mech, name, x0, vs, local, out, wits, tags, want_digests=want_digests, pkey=pkey)
        if mech in CHANNELS:
            out["cover"].append(f"mech:{mech}")


def build_branch(specs, subsets, ncomp=3):
    from vf import env

    env.setup()
    import jaxley as jx

    comp = jx.Compartment()
    br = jx.Branch([comp] * ncomp)
    chans = []
    for spec, sub in zip(specs, subsets):
        ch = make_channel(spec)
        br.comp(list(sub)).insert(ch)
        chans.append(ch)
    return br, chans


def module_layer(specs, subsets, out, only=None):
    """All valuations x voltage triples for one insertion configuration.  only=(which, tag) restricts (replay)."""
    try:
        br, chans = build_branch(specs, subsets)
    except Exception as e:
        out["violations"].append(_viol({"rule": "raises", "call": "insert", "exc": type(e).__name__},
                                       {"kind": "module", "specs": specs, "subsets": subsets},
                                       f"insert raised {type(e).__name__}: {e}"[:300]))
        return
    names = "+".join(chan_name(s) for s in specs)
    if any(len(s) < 3 for s in subsets):
        out["cover"].append("partial_insertion")
    if any(s[1] != "default" for s in specs):
        out["cover"].append("renamed_channel")
    if len(specs) == 2:
        k0 = {refkin.key_of(specs[0][0], chan_name(specs[0]), n) for n, _, _ in refkin.MECHS[specs[0][0]]["params"]}
        k1 = {refkin.key_of(specs[1][0], chan_name(specs[1]), n) for n, _, _ in refkin.MECHS[specs[1][0]]["params"]}
        if (k0 & k1) and set(subsets[0]) & set(subsets[1]):
            out["cover"].append("two_channels_sharing_param")
    acc, views = {}, {}
    has_kin = any(refkin.MECHS[s[0]]["kin"] for s in specs)
    for which in (0, 1):
        if which == 1 and not has_kin:
            continue
        vals = valuation(specs, 3, which)
        if which == 1:
            out["cover"].append("per_compartment_parameters")
        triples = dict(voltage_triples(specs, subsets, vals))
        if not has_kin:
            use = ["singular", "generic", "ends"]
        elif which == 0:
            use = ["singular", "generic"]
        else:
            use = ["singular2" if "singular2" in triples else "singular", "ends"]
        for ttag in use:
            v = triples[ttag]
            if only and (which, ttag) != tuple(only):
                continue
            wit = {"kind": "module", "specs": specs, "subsets": subsets, "valuation": which, "triple": ttag}
            module_case(br, chans, specs, subsets, vals, v, out, wit, f"module:{names}:{subsets}:val{which}:{ttag}", acc, views)
            out["digests"].append(digest(["module", specs, subsets, which, ttag]))
    # the channels are then inserted into the REMAINING compartments of the same (already initialised) module and init_states
    # runs again: the rows added after the first call must be initialised too
    if only is None and any(len(s) < 3 for s in subsets):
        try:
            for spec, sub in zip(specs, subsets):
                rest = [c for c in range(3) if c not in sub]
                if rest:
                    br.comp(rest).insert(make_channel(spec))
            full = [list(range(3)) for _ in specs]
            vals = valuation(specs, 3, 0)
            v = dict(voltage_triples(specs, full, vals))["generic"]
            wit = {"kind": "module", "specs": specs, "subsets": subsets, "valuation": 0, "triple": "generic", "reinserted": True}
            module_case(br, chans, specs, full, vals, v, out, wit, f"module:{names}:{subsets}->all:val0:generic", acc, {})
            out["cover"].append("inserted_into_more_compartments_after_init_states")
        except Exception as e:
            out["violations"].append(_viol({"rule": "raises", "call": "insert_again", "exc": type(e).__name__},
                                           {"kind": "module", "specs": specs, "subsets": subsets, "reinserted": True},
                                           f"second insert raised {type(e).__name__}: {e}"[:300]))
    if acc:
        judge_rows(chans, specs, acc, out)


def wide_layer(specs, p, tier, out, rows_only=None):
    """One long branch carrying the whole voltage alphabet in the compartments that contain the channel(s)
    (two of every three compartments); the others sit at a singular voltage and must stay untouched."""
    mech0 = specs[0][0]
    alph = [kl.voltages64(s[0], {k: p[k] for k in refkin.MECHS[s[0]]["kin"]}, LO, HI, "quick" if tier == "quick" else "wide")
            for s in specs]
    v_in = np.unique(np.concatenate(alph))
    if rows_only is not None:
        v_in = np.asarray(rows_only, dtype=np.float64)
    n = len(v_in)
    ncomp = (n * 3 + 1) // 2 + 1
    rows = [j for j in range(ncomp) if j % 3 != 2][:n]
    sing = [x for s in specs for vs in refkin.singular_voltages(s[0], {k: p[k] for k in refkin.MECHS[s[0]]["kin"]}).values() for x in vs]
    v = np.full(ncomp, sing[0] if sing else GENERIC[0])
    v[rows] = v_in
    wit = {"kind": "wide", "specs": specs, "p": p, "tier": tier}
    try:
        br, chans = build_branch(specs, [rows] * len(specs), ncomp)
    except Exception as e:
        out["violations"].append(_viol({"rule": "raises", "call": "insert", "exc": type(e).__name__}, wit,
                                       f"insert raised {type(e).__name__}: {e}"[:300]))
        return
    vals = []
    for s in specs:
        d = {k: np.full(ncomp, val, dtype=np.float64) for k, val in refkin.defaults(s[0]).items()}
        for k in refkin.MECHS[s[0]]["kin"]:
            d[k] = np.full(ncomp, p[k], dtype=np.float64)
        vals.append(d)
    names = "+".join(chan_name(s) for s in specs)
    acc = {}
    module_case(br, chans, specs, [rows] * len(specs), vals, v, out, wit, f"wide:{names}:{p}", acc, {})
    if acc:
        judge_rows(chans, specs, acc, out, pkey=p, want_digests=True)
    out["cover"] += ["whole_lattice_through_module", "partial_insertion"]
    if any(s[1] != "default" for s in specs):
        out["cover"].append("renamed_channel")
    out["digests"].append(digest(["wide", specs, p, n]))


# ----------------------------------------------------------------------------- work / replay
def work(item):
    out = _new_out()
    k = item["kind"]
    if k == "kernel":
        spec, p = item["spec"], item["p"]
        v = kl.voltages64(spec[0], p, LO, HI, item["tier"])
        kernel_layer(spec, p, v, out, {"kind": "kernel", "spec": spec, "p": p})
        out["sample"] = {"kind": k, "spec": spec, "p": p, "n_voltages": int(len(v))}
    elif k == "module":
        module_layer(item["specs"], item["subsets"], out)
    elif k == "wide":
        wide_layer(item["specs"], item["p"], item["tier"], out)
    out["cover"] = sorted(set(c for c in out["cover"] if c))
    out["digests"] = sorted(set(out["digests"]))
    out["violations"] = _thin(out["violations"])
    return out


def _thin(viols, per_sig=3):
    seen, keep = {}, []
    for v in viols:
        k = tuple(sorted((a, str(b)) for a, b in v["sig"].items()))
        seen[k] = seen.get(k, 0) + 1
        if seen[k] <= per_sig:
            keep.append(v)
    return keep


def replay(w):
    out = _new_out()
    if w["kind"] == "kernel":
        kernel_layer(w["spec"], w["p"], np.asarray([w["v"]]) if "v" in w else kl.voltages64(w["spec"][0], w["p"], LO, HI, "quick"),
                     out, {"kind": "kernel", "spec": w["spec"], "p": w["p"]})
    elif w["kind"] == "module" and w.get("reinserted"):
        module_layer(w["specs"], w["subsets"], out)  # the whole sequence (the second insert needs the first init_states)
        return [v for v in out["violations"] if v["witness"].get("reinserted")]
    elif w["kind"] == "module":
        module_layer(w["specs"], w["subsets"], out, only=(w["valuation"], w["triple"]))
    elif w["kind"] == "wide":
        wide_layer(w["specs"], w["p"], w["tier"], out, rows_only=[w["v"]] if "v" in w else None)
    return out["violations"]
