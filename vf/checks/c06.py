"""C06 — results do not depend on how the simulation is executed; integrate is pure.

(1) all checkpoint_lengths tuples of the bounded family vs the plain eager run;
(2) execution modes jit / vmap(params) / vmap(stimuli) / jit(vmap) vs sequential eager runs;
(3) model checking over *histories of integrate calls* on one module: every sequence over a 7-call
    alphabet up to the depth bound; each call must equal the same call on a fresh module (bit for bit)
    and leave the module's canonical snapshot unchanged;
(4) integrate / edit / integrate: a module that was simulated and then edited must be (tables and results, bit for bit)
    the module that was only edited — "does not change the module" includes state integrate keeps out of sight.
"""
from __future__ import annotations

import copy
import itertools

import numpy as np

from vf import canon, models, scope, env
from vf.runner import digest

ID = "C06"
LEVEL = "model_checking"
RULE = (
    "three stored-input models; (1) every checkpoint_lengths tuple with depth<=3, entries 1..3 (quick) / 1..4 (thorough), "
    "steps<=prod<=12/16 for runs of 2 and 5 (quick) / 1,2,3,5 (thorough) steps; (2) jit, vmap over params with batch 1,2,3, vmap over "
    "stimuli, jit(vmap); (3) all sequences of integrate calls over {plain, data_stimuli, data_clamps, params, t_max shorter, "
    "t_max longer, checkpointed} of length <=2 (quick) / <=3 (thorough); (4) integrate, one edit of a 21-edit alphabet (delete/record/"
    "stimulate/clamp/set/trainables/insert/delete_channel/set_ncomp/init_states, mostly through views), integrate again: tables and results "
    "must be bit-identical to those of a module that was only edited; state = (model, canonical module snapshot hash, "
    "history); distinct = distinct (model, call/configuration) result digests"
)
REQUIRED_COVER = ["explicit_solver", "non_default_delta_t", "prod_gt_steps", "depth3_nesting", "externals_unequal_width", "batch_size_1", "jit", "vmap_params", "vmap_stimuli",
                  "jit_vmap", "repeat_bit_identical", "history_depth2", "edit_between_integrate_calls", "recordings_deleted_through_view_between_calls", "tmax_longer_pads", "tmax_shorter_truncates"]
ASSUMPTIONS = [
    "eager CPU execution is deterministic (single XLA thread per worker), so bit-identity of repeated calls is decidable",
    "tolerance 1e-8 relative for mode/checkpoint equivalence (round-off amplified through spikes); repeated identical calls must be bit-identical",
]
TOL = 1e-8  # jit / vmap / checkpointed programs are fused differently; round-off (1e-16) can be amplified by ~1e6 through a spike
T = 5  # stored input length (steps)
DT = 0.025

CALLS = ["plain", "data_stim", "data_clamp", "params", "tmax_short", "tmax_long", "ckpt"]
# model D: an unbranched cable with one short compartment (stiff axial coupling) stepped with the EXPLICIT solver
SOLVER_KW = {"D": {"solver": "fwd_euler"}}


def _integ(name, m, **kw):
    import jaxley as jx

    return jx.integrate(m, **dict(SOLVER_KW.get(name, {}), **kw))


def _setup(name):
    import jax.numpy as jnp

    if name == "A":
        m = models.cell_hh_leak()
        m.branch(0).comp(0).stimulate(jnp.asarray(models.stim_series(T, 0)), verbose=False)
    elif name == "B":
        m = models.cell_hh_leak()
        m.branch(0).comp(1).stimulate(jnp.asarray(models.stim_series(T, 1)), verbose=False)
        m.branch([0, 1]).comp(0).clamp("v", jnp.asarray(models.clamp_series(T, 0)), verbose=False)
    elif name == "D":
        import jaxley as jx
        from jaxley.channels import HH

        m = jx.Branch([jx.Compartment()] * 5)
        m.set("length", np.asarray([30.0, 30.0, 5.0, 30.0, 30.0]))
        m.set("axial_resistivity", 2000.0)
        m.set("radius", np.asarray([1.0, 0.8, 1.2, 0.9, 1.1]))
        m.insert(HH())
        m.set("v", np.asarray([-70.0, -66.0, -62.0, -68.0, -71.0]))
        m.comp(0).stimulate(jnp.asarray(models.stim_series(T, 0)), verbose=False)
    else:
        m = models.net_syn()
        m.cell([0, 1]).branch(0).comp(0).stimulate(jnp.asarray(models.stim_series(T, 2)), verbose=False)
    m.record("v", verbose=False)
    if name == "D":
        m.comp(0).record("HH_m", verbose=False)
        tv = m.comp([0, 1])
    elif name == "C":
        m.IonotropicSynapse.edge(0).record("IonotropicSynapse_s", verbose=False)
        tv = m.cell(0).branch(0)
    else:
        m.branch(0).comp(0).record("HH_m", verbose=False)
        tv = m.branch(0)
    tv.make_trainable("radius", verbose=False)
    (m.cell(1) if name == "C" else m).make_trainable("HH_gNa", verbose=False)
    return m


def _views(m, name):
    if name == "D":
        return m.comp(1), m.comp(3)
    if name == "C":
        return m.cell(1).branch(1).comp(0), m.cell(0).branch(1).comp(0)
    return m.branch(1).comp(0), m.branch(0).comp(1) if name == "A" else m.branch(1).comp(0)


def _call(m, name, kind, ck=None):
    """One integrate call of the alphabet on module m. Returns np.ndarray or raises."""
    import jax.numpy as jnp
    import jaxley as jx

    sv, cv = _views(m, name)
    if kind == "plain":
        return np.asarray(_integ(name, m, checkpoint_lengths=ck))
    if kind == "data_stim":
        ds = sv.data_stimulate(jnp.asarray(0.5 * models.stim_series(T, 4)))
        return np.asarray(_integ(name, m, data_stimuli=ds))
    if kind == "data_clamp":
        if name == "B":  # clamp a gate instead (the v clamp slot of B is taken by the stored clamp on other compartments)
            dc = m.branch(0).comp(1).data_clamp("HH_n", jnp.asarray(0.3 + 0.1 * (np.arange(T) % 2)))
        else:
            dc = cv.data_clamp("v", jnp.asarray(models.clamp_series(T, 3)))
        return np.asarray(_integ(name, m, data_clamps=dc))
    if kind == "params":
        p = m.get_parameters()
        p2 = [{k: v * 1.25 for k, v in d.items()} for d in p]
        return np.asarray(_integ(name, m, params=p2))
    if kind == "tmax_short":
        return np.asarray(_integ(name, m, t_max=2 * DT + DT / 2))
    if kind == "tmax_long":
        return np.asarray(_integ(name, m, t_max=(T + 2) * DT + DT / 2))
    if kind == "ckpt":
        return np.asarray(_integ(name, m, checkpoint_lengths=[2, 3]))
    raise ValueError(kind)


def _rel(a, b):
    if a.shape != b.shape:
        return float("inf")
    d = np.abs(a - b) / (1 + np.abs(b))
    return float(np.max(d)) if np.all(np.isfinite(d)) else float("inf")


def _viol(out, rule, model, detail, witness, msg):
    sig = {"rule": rule, "model": model}
    sig.update(detail)
    out["violations"].append({"sig": sig, "witness": witness, "msg": msg})


# ---------------------------------------------------------------- (1) checkpoint tuples
def ckpt_item(name, steps, tuples, dt=DT):
    import jax.numpy as jnp
    import jaxley as jx

    out = {"violations": [], "cover": [], "refusals": [], "digests": [], "evals": 0}
    m = _setup(name)
    kw = {} if steps == T else {"t_max": (steps - 1) * dt + dt / 2}
    if dt != DT:
        kw["delta_t"] = dt  # non-default time step (the default one is passed implicitly)
        out["cover"].append("non_default_delta_t")
    plain = np.asarray(_integ(name, m, **kw))
    if plain.shape[1] != steps + 1:
        _viol(out, "tmax_steps", name, {}, {"part": "ckpt", "model": name, "steps": steps, "tuple": None}, f"shape {plain.shape} for {steps} steps")
        return out
    if name == "B":
        out["cover"].append("externals_unequal_width")
    for tup in tuples:
        env.maybe_clear_caches(20000)
        out["evals"] += 1
        prod = int(np.prod(tup))
        wit = {"part": "ckpt", "model": name, "steps": steps, "tuple": list(tup), "dt": dt}
        try:
            r = np.asarray(_integ(name, m, checkpoint_lengths=list(tup), **kw))
        except Exception as e:
            _viol(out, "checkpoint_raised", name, {"prod_gt_steps": prod > steps, "depth": len(tup)}, wit, f"{type(e).__name__}: {str(e)[:200]}")
            continue
        err = _rel(r, plain)
        if err > TOL:
            _viol(out, "checkpoint_recordings", name, {"prod_gt_steps": prod > steps, "depth": len(tup), "default_dt": dt == DT}, wit, f"differs from plain by {err}")
        out["digests"].append(digest([name, steps, list(tup)]))
        if prod > steps:
            out["cover"].append("prod_gt_steps")
        if len(tup) == 3 and min(tup) > 1:
            out["cover"].append("depth3_nesting")
    out["sample"] = {"part": "ckpt", "model": name, "steps": steps, "tuples": [list(t) for t in tuples[:5]]}
    return out


# ---------------------------------------------------------------- (2) execution modes
def modes_item(name):
    import jax
    import jax.numpy as jnp
    import jaxley as jx

    out = {"violations": [], "cover": [], "refusals": [], "digests": [], "evals": 0}
    m = _setup(name)
    params = m.get_parameters()
    sv, _ = _views(m, name)
    base_stim = jnp.asarray(models.stim_series(T, 4))

    def sim_p(p):
        return _integ(name, m, params=p)

    def sim_s(amp):
        return _integ(name, m, data_stimuli=sv.data_stimulate(amp * base_stim))

    def scale(p, f):
        return [{k: v * f for k, v in d.items()} for d in p]

    factors = [1.0, 1.3, 0.8]
    seq_p = [np.asarray(sim_p(scale(params, f))) for f in factors]
    amps = [0.5, 1.5]
    seq_s = [np.asarray(sim_s(a)) for a in amps]

    def check(tag, got, want, wit):
        out["evals"] += 1
        err = _rel(np.asarray(got), want)
        out["cover"].append(tag)
        out["digests"].append(digest([name, tag, wit]))
        if err > TOL:
            _viol(out, "mode_equivalence", name, {"mode": tag}, dict(wit, part="modes", model=name, mode=tag), f"{tag} differs from eager by {err}")

    try:
        check("jit", jax.jit(sim_p)(params), seq_p[0], {"factor": 1.0})
        for b in (1, 2, 3):
            batched = [{k: jnp.stack([v * f for f in factors[:b]]) for k, v in d.items()} for d in params]
            got = np.asarray(jax.vmap(sim_p)(batched))
            for i in range(b):
                check("vmap_params", got[i], seq_p[i], {"batch": b, "i": i})
            if b == 1:
                out["cover"].append("batch_size_1")
        got = np.asarray(jax.vmap(sim_s)(jnp.asarray(amps)))
        for i in range(len(amps)):
            check("vmap_stimuli", got[i], seq_s[i], {"i": i})
        batched = [{k: jnp.stack([v * f for f in factors]) for k, v in d.items()} for d in params]
        got = np.asarray(jax.jit(jax.vmap(sim_p))(batched))
        for i in range(3):
            check("jit_vmap", got[i], seq_p[i], {"i": i})
        got = np.asarray(jax.jit(sim_s)(0.5))
        check("jit", got, seq_s[0], {"amp": 0.5})
    except Exception as e:
        _viol(out, "mode_raised", name, {}, {"part": "modes", "model": name}, f"{type(e).__name__}: {str(e)[:300]}")
    out["sample"] = {"part": "modes", "model": name}
    return out


# ---------------------------------------------------------------- (3) purity over call histories
_fresh_cache = {}


def _fresh_result(name, kind):
    key = (name, kind)
    if key not in _fresh_cache:
        m = _setup(name)
        try:
            _fresh_cache[key] = ("ok", _call(m, name, kind))
        except Exception as e:
            _fresh_cache[key] = ("raise", type(e).__name__)
    return _fresh_cache[key]


def history_item(name, prefix, depth):
    """Explore every history that starts with `prefix` and has length <= depth (DFS, replay from scratch)."""
    out = {"violations": [], "cover": [], "refusals": [], "digests": [], "evals": 0, "transitions": 0}
    base = _setup(name)
    snap0 = canon.snapshot(base)
    hists = [tuple(prefix)]
    for L in range(len(prefix) + 1, depth + 1):
        hists += [tuple(prefix) + t for t in itertools.product(CALLS, repeat=L - len(prefix))]
    for h in hists:
        env.maybe_clear_caches(20000)  # one item makes hundreds of integrate calls (each leaves ~180 memory mappings behind)
        m = copy.deepcopy(base)
        wit = {"part": "history", "model": name, "history": list(h)}
        for j, kind in enumerate(h):
            want = _fresh_result(name, kind)
            before = canon.snapshot(m)
            try:
                got = ("ok", _call(m, name, kind))
            except Exception as e:
                got = ("raise", type(e).__name__)
            out["transitions"] += 1
            if j < len(h) - 1:
                continue  # earlier calls of this history were checked when that shorter history was explored
            out["evals"] += 1
            after = canon.snapshot(m)
            d = canon.diff(before, after)
            if d:
                _viol(out, "integrate_mutates_module", name, {"call": kind, "where": d[0].split("/")[1] if "/" in d[0] else d[0]}, wit,
                      f"snapshot changed at {d[:4]}")
            if got[0] != want[0]:
                _viol(out, "history_dependence", name, {"call": kind}, wit, f"{got[0]} after history vs {want[0]} on a fresh module")
            elif got[0] == "raise":
                out["refusals"].append(f"{name}:{kind}:{got[1]}")
            else:
                if got[1].shape != want[1].shape or not np.array_equal(got[1], want[1], equal_nan=True):
                    err = _rel(got[1], want[1]) if got[1].shape == want[1].shape else float("inf")
                    _viol(out, "history_dependence", name, {"call": kind, "bitwise_only": bool(err <= TOL)}, wit,
                          f"result after history differs from fresh-module result (rel {err})")
                out["digests"].append(digest([name, kind, digest(np.round(got[1], 9).tolist())]))
                if len(h) >= 2 and h[-1] == h[-2]:
                    out["cover"].append("repeat_bit_identical")
                if len(h) >= 2:
                    out["cover"].append("history_depth2")
                if kind == "tmax_long" and got[1].shape[1] == T + 4:
                    out["cover"].append("tmax_longer_pads")
                if kind == "tmax_short" and got[1].shape[1] == 4:
                    out["cover"].append("tmax_shorter_truncates")
        # module must still be what it was at the start
        d = canon.diff(snap0, canon.snapshot(m))
        if d and not any(v["sig"]["rule"] == "integrate_mutates_module" for v in out["violations"]):
            _viol(out, "integrate_mutates_module", name, {"call": "history", "where": d[0]}, wit, f"snapshot changed at {d[:4]}")
    out["sample"] = {"part": "history", "model": name, "histories": [list(h) for h in hists[:3]]}
    out["n_hist"] = len(hists)
    return out


# ---------------------------------------------------------------- (4) integrate calls interleaved with edits
def _edits(name):
    """Edit alphabet (public API, mostly through views).  'Calling integrate does not change the module' implies that a module
    which was simulated and then edited is the module which was only edited — also in whatever integrate keeps out of sight."""
    import jax.numpy as jnp
    from jaxley.channels import K, Leak

    net = name == "C"
    first = (lambda m: m.cell(0)) if net else (lambda m: m.branch(0))
    second = (lambda m: m.cell(1)) if net else (lambda m: m.branch(1))
    comp = (lambda m: m.cell(1).branch(1).comp(0)) if net else (lambda m: m.branch(1).comp(0))
    E = {
        "delrec_first_rows": lambda m: first(m).delete_recordings(),
        "delrec_last_rows": lambda m: second(m).delete_recordings(),
        "delrec_all": lambda m: m.delete_recordings(),
        "record_more": lambda m: comp(m).record("HH_h", verbose=False),
        "delrec_then_record": lambda m: (first(m).delete_recordings(), comp(m).record("HH_n", verbose=False)),
        "delstim_view": lambda m: first(m).delete_stimuli(),
        "stimulate_more": lambda m: comp(m).stimulate(jnp.asarray(0.3 * models.stim_series(T, 5)), verbose=False),
        "delclamp_all": lambda m: m.delete_clamps(),
        "clamp_more": lambda m: comp(m).clamp("HH_h", jnp.asarray(0.4 + 0.05 * np.arange(T)), verbose=False),
        "set_gK_view": lambda m: second(m).set("HH_gK", 0.05),
        "set_radius_view": lambda m: first(m).set("radius", 1.7),
        "set_v_view": lambda m: second(m).set("v", -61.0),
        "deltrain_all": lambda m: m.delete_trainables(),
        "deltrain_view": lambda m: first(m).delete_trainables(),
        "train_more": lambda m: second(m).make_trainable("HH_gK", verbose=False),
        "insert_K": lambda m: second(m).insert(K()),
        "delete_Leak": lambda m: first(m).delete_channel(Leak()),
        "init_states": lambda m: m.init_states(),
        "group": lambda m: second(m).add_to_group("grp"),
    }
    if net:
        E["set_gS"] = lambda m: m.IonotropicSynapse.set("IonotropicSynapse_gS", 3e-4)
        E["delrec_synapse_view"] = lambda m: m.IonotropicSynapse.edge(0).delete_recordings()
    else:
        E["set_ncomp"] = lambda m: m.branch(1).set_ncomp(3)
    return E


def _edit_names(name):
    from vf import env as _env

    _env.setup()
    return list(_edits(name))


def _final(m, name, kind):
    if kind == "params" and not m.trainable_params:
        kind = "plain"
    if len(m.recordings) == 0:
        m.record("v", verbose=False)
    return _call(m, name, kind)


def interleave_item(name, firsts, finals, only=None):
    out = {"violations": [], "cover": [], "refusals": [], "digests": [], "evals": 0, "transitions": 0}
    E = _edits(name)
    if only is not None:
        E = {k: v for k, v in E.items() if k in only}
    for ename, edit in E.items():
        for c2 in finals:
            env.maybe_clear_caches(20000)
            ref = _setup(name)
            try:
                edit(ref)
                ref_status = "ok"
            except Exception as e:
                ref_status = f"raise:{type(e).__name__}"
            ref_snap = canon.snapshot(ref)
            try:
                want = ("ok", _final(ref, name, c2)) if ref_status == "ok" else (ref_status, None)
            except Exception as e:
                want = (f"integrate_raise:{type(e).__name__}", None)
            for c1 in firsts:
                wit = {"part": "interleave", "model": name, "first": c1, "edit": ename, "final": c2}
                out["evals"] += 1
                m = _setup(name)
                try:
                    _call(m, name, c1)
                except Exception:
                    out["refusals"].append(f"{name}:{c1}")
                    continue
                try:
                    edit(m)
                    st = "ok"
                except Exception as e:
                    st = f"raise:{type(e).__name__}"
                out["transitions"] += 2
                if st != ref_status:
                    _viol(out, "simulated_then_edited_differs_from_edited", name, {"edit": ename, "what": "edit_outcome"}, wit,
                          f"edit {ename} after integrate({c1}): {st}; on a module that was never simulated: {ref_status}")
                    continue
                if st != "ok":
                    out["refusals"].append(f"{name}:{ename}:{st}")
                    continue
                d = canon.diff(ref_snap, canon.snapshot(m))
                if d:
                    _viol(out, "simulated_then_edited_differs_from_edited", name, {"edit": ename, "what": "tables"}, wit, f"tables differ at {d[:4]}")
                    continue
                try:
                    got = ("ok", _final(m, name, c2))
                except Exception as e:
                    got = (f"integrate_raise:{type(e).__name__}", None)
                if got[0] != want[0]:
                    _viol(out, "simulated_then_edited_differs_from_edited", name, {"edit": ename, "what": "integrate_outcome"}, wit,
                          f"{got[0]} vs {want[0]} on the never-simulated module")
                elif got[0] == "ok":
                    out["cover"].append("edit_between_integrate_calls")
                    if ename.startswith("delrec") and "view" in ename or ename in ("delrec_first_rows", "delrec_last_rows"):
                        out["cover"].append("recordings_deleted_through_view_between_calls")
                    if got[1].shape != want[1].shape or not np.array_equal(got[1], want[1], equal_nan=True):
                        err = _rel(got[1], want[1]) if got[1].shape == want[1].shape else float("inf")
                        _viol(out, "simulated_then_edited_differs_from_edited", name, {"edit": ename, "what": "result", "bitwise_only": bool(err <= TOL)}, wit,
                              f"integrate({c2}) after integrate({c1}) + {ename} differs from integrate({c2}) after {ename} alone (rel {err})")
                    out["digests"].append(digest([name, ename, c2, digest(np.round(got[1], 9).tolist())]))
                else:
                    out["refusals"].append(f"{name}:{ename}:{got[0]}")
    out["sample"] = {"part": "interleave", "model": name, "edits": list(E)[:4], "firsts": firsts, "finals": finals}
    return out


def work(item):
    out = _work(item)
    if item.get("model") == "D":
        out["cover"].append("explicit_solver")
    return out


def _work(item):
    if item["part"] == "interleave":
        return interleave_item(item["model"], item["firsts"], item["finals"], item.get("edits"))
    if item["part"] == "ckpt":
        return ckpt_item(item["model"], item["steps"], [tuple(t) for t in item["tuples"]], item.get("dt", DT))
    if item["part"] == "modes":
        return modes_item(item["model"])
    return history_item(item["model"], item["prefix"], item["depth"])


def explore(ctx):
    quick = ctx.tier == "quick"
    items = []
    steps_list = [2, 5] if quick else [1, 2, 3, 5]
    maxe, maxp = (3, 12) if quick else (4, 16)
    ntup = 0
    for name in "ABC":
        for steps in steps_list:
            tups = list(scope.factorizations(3, maxe, steps, maxp))
            ntup += len(tups)
            ch = 12
            for i in range(0, len(tups), ch):
                items.append({"part": "ckpt", "model": name, "steps": steps, "tuples": [list(t) for t in tups[i:i + ch]],
                              "dt": {2: 0.05, 3: 0.0125}.get(steps, DT)})
        items.append({"part": "modes", "model": name})
    depth = 2 if quick else 3
    for name in "ABC":
        d = depth if (name == "B" or not quick) else 1
        for c in CALLS:
            items.append({"part": "history", "model": name, "prefix": [c], "depth": d})
    # model D (explicit solver): execution modes, every call history of length <= 2, checkpoint tuples of the 5-step run
    items.append({"part": "modes", "model": "D"})
    for c in CALLS:
        items.append({"part": "history", "model": "D", "prefix": [c], "depth": 2})
    tups = list(scope.factorizations(3, maxe, 5, maxp))
    for i in range(0, len(tups), 12):
        items.append({"part": "ckpt", "model": "D", "steps": 5, "tuples": [list(t) for t in tups[i:i + 12]], "dt": DT})
    for name in "ABC":
        firsts = ["plain", "ckpt"] if quick else CALLS
        enames = list(_edit_names(name))
        for c2 in (["plain"] if quick else ["plain", "params", "data_stim"]):
            for i in range(0, len(enames), 4):
                items.append({"part": "interleave", "model": name, "firsts": firsts, "finals": [c2], "edits": enames[i:i + 4]})
    ctx.note("checkpoint_tuples", ntup)
    ctx.note("history_depth", depth)
    res = ctx.map("work", items)
    nh = sum(r.get("n_hist", 0) for _, r in res if r)
    ctx.states = nh + 3
    ctx.note("histories", nh)


def replay(w):
    if w["part"] == "ckpt":
        return ckpt_item(w["model"], w["steps"], [tuple(w["tuple"])] if w.get("tuple") else [], w.get("dt", DT))["violations"]
    if w["part"] == "modes":
        return modes_item(w["model"])["violations"]
    if w["part"] == "interleave":
        return interleave_item(w["model"], [w["first"]], [w["final"]], [w["edit"]])["violations"]
    h = w["history"]
    r = history_item(w["model"], h, len(h))
    return r["violations"]
