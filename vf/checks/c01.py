"""C01 — every voltage step is the exact solution of the discretised cable equation.

Bounded-exhaustive: all morphologies in scope x valuations x dt x scheme x backend, one real
`step_fn` each, compared with the dense SI reference (vf.refphys).
"""
from __future__ import annotations

import numpy as np

from vf import build, refphys, scope, vals
from vf.runner import digest

ID = "C01"
LEVEL = "exploration"
RULE = (
    "enumerate every module in scope (compartment, branches n<=4, all parent vectors x ncomp vectors up to the "
    "tier bound, all ordered tuples of a 6-cell catalogue as networks) x valuations x dt x "
    "{bwd_euler,crank_nicolson,fwd_euler} x {jaxley.stone,jaxley.thomas,jax.sparse}; run one real step_fn and "
    "compare with the dense SI reference; a case is distinct/non-trivial if its (morphology, valuation, dt, scheme) "
    "reference solution digest is new and differs from the initial voltages"
)
REQUIRED_COVER = [
    "padded_branch_with_children",
    "padded_leaf",
    "three_levels",
    "three_children_at_branchpoint",
    "parent_first_mention_unsorted",
    "single_parameter_edit_after_simulation",
    "net_cells_of_different_depth",
    "net_ends_in_point_cell",
    "accepted:jaxley.stone:bwd_euler",
    "accepted:jaxley.thomas:bwd_euler",
    "accepted:jax.sparse:bwd_euler",
    "accepted:jaxley.stone:crank_nicolson",
    "accepted:jax.sparse:crank_nicolson",
    "accepted:jaxley.stone:fwd_euler",
]
ASSUMPTIONS = [
    "parameter values outside the enumerated valuations are covered by the data-independence argument of DESIGN §4 "
    "(the update is a rational function of the parameters for a fixed shape)",
    "shapes above the stated bound are not explored",
    "numpy.linalg.solve on the dense reference system is trusted to 1e-10 relative",
]

BACKENDS = ["jaxley.stone", "jaxley.thomas", "jax.sparse"]
SCHEMES = ["bwd_euler", "crank_nicolson", "fwd_euler"]

CATALOGUE = [
    {"parents": [-1], "ncomps": [1]},  # point cell
    {"parents": [-1], "ncomps": [3]},
    {"parents": [-1, 0, 0], "ncomps": [2, 1, 2]},
    {"parents": [-1, 0, 1], "ncomps": [1, 2, 1]},  # depth 2
    {"parents": [-1, 0, 0, 1], "ncomps": [1, 1, 2, 1]},  # padded branch with children
    {"parents": [-1, 0], "ncomps": [2, 2]},
]


def _items(tier):
    items = [{"kind": "comp"}]
    items += [{"kind": "branch", "ncomp": n} for n in (1, 2, 3, 4)]
    seen = set()
    if tier == "quick":
        gens = [scope.cells(4, (1, 2)), scope.cells(3, (1, 2, 3))]
    else:
        gens = [scope.cells(5, (1, 2, 3)), scope.cells(6, (1, 2), min_branches=6)]
    for g in gens:
        for p, nc in g:
            if (p, nc) in seen:
                continue
            seen.add((p, nc))
            items.append({"kind": "cell", "parents": list(p), "ncomps": list(nc)})
    import itertools

    if tier == "quick":
        # shapes beyond the quick bound whose parent list mentions parents in unsorted order (5 branches: one vector; 6: several)
        extra = [(p, nc) for p in scope.parent_vectors(5) if scope.parents_first_mention_unsorted(p) for nc in scope.ncomp_vectors(5, (1, 2))]
        extra += [(p, nc) for p in scope.parent_vectors(6) if scope.parents_first_mention_unsorted(p)
                  for nc in ((1,) * 6, (1, 2, 1, 2, 1, 2), (2, 1, 1, 2, 1, 1))]
        for p, nc in extra:
            if (p, nc) not in seen:
                seen.add((p, nc))
                items.append({"kind": "cell", "parents": list(p), "ncomps": list(nc)})
    k = 2 if tier == "quick" else 3
    for r in range(2, k + 1):
        for tup in itertools.product(range(len(CATALOGUE)), repeat=r):
            items.append({"kind": "net", "cells": [CATALOGUE[i] for i in tup], "cat": list(tup)})
    return items


def _config(tier):
    if tier == "quick":
        return {"valuations": [0, 1], "dts": [0.025, 1e3]}
    return {"valuations": [0, 1, 2, 3], "dts": [0.025, 1.0, 1e3, 1e9]}


LEAN = {"valuations": [1], "dts": [0.025, 1e9], "schemes": ["bwd_euler", "crank_nicolson"], "single_param_edits": False}


def _is_small(it):
    """Small modules get the full configuration product; the bulk of the thorough scope (cells with 5-6 branches, network
    triples) gets the lean one (one generic valuation, dt in {0.025, 1e9}, implicit schemes, all backends)."""
    if it["kind"] == "cell":
        return len(it["parents"]) <= 4
    if it["kind"] == "net":
        return len(it["cells"]) <= 2
    return True


def explore(ctx):
    items = _items(ctx.tier)
    cfg = _config(ctx.tier)
    ctx.note("modules", len(items))
    ctx.note("config", cfg)
    ctx.note("lean_config_for_large_modules_in_thorough", LEAN)
    ctx.note("bound", "quick: cells <=4 branches ncomp{1,2} + <=3 branches ncomp{1,2,3} + all 5/6-branch parent vectors with unsorted "
                      "first-mention order, network pairs; thorough: <=5 branches ncomp{1,2,3} + 6 branches ncomp{1,2}, network triples "
                      "(full configuration product up to 4 branches / pairs, lean configuration beyond)")
    def cfg_of(it):
        if ctx.tier != "quick":
            return cfg if _is_small(it) else LEAN
        if it["kind"] == "cell" and len(it["parents"]) >= 4:
            # quick: the many 4-6 branch cells get one generic valuation, implicit schemes only (fwd_euler refuses branched cells)
            return {"valuations": [1], "dts": cfg["dts"], "schemes": ["bwd_euler", "crank_nicolson"], "edit_backends": ["jaxley.stone"]}
        return cfg

    ctx.map("work", [dict(it, cfg=cfg_of(it)) for it in items])
    # assumption monitor on one representative per shape class (reported, never part of the verdict)
    reps = [{"kind": "branch", "ncomp": 3}, {"kind": "cell", "parents": [-1, 0, 0, 1], "ncomps": [1, 1, 2, 1]},
            {"kind": "net", "cells": [CATALOGUE[5], CATALOGUE[5]]}]
    mon = ctx.map("monitor", [{"desc": d} for d in reps] + [{"desc": reps[1], "with_hh": True}], absorb=False)
    ctx.note("assumption_monitor", [r.get("monitor", r.get("error", "")) for _, r in mon])


def _stim(n, val):
    return [(0, float(val["i"][0])), (n - 1, float(val["i"][-1]) * 0.7)]


def check_one(desc, valuation_id, dt, scheme, backend, module=None):
    """Returns (status, info) with status in {"ok","refused","violation"}."""
    parents, ncomps = build.forest_of_desc(desc)
    n = int(sum(ncomps))
    val = vals.valuation(n, valuation_id)
    if module is None:
        module = build.module_of(desc)
        build.apply_passive_valuation(module, val)
    stim = _stim(n, val)
    ext = {"i": np.asarray([s[1] for s in stim])}
    inds = {"i": np.asarray([s[0] for s in stim])}
    try:
        vs, _ = build.eager_step(module, scheme, backend, dt, ext, inds, nsteps=1)
    except Exception as e:  # refusal: the property allows a backend to reject a model with an error
        return "refused", f"{type(e).__name__}"
    got = vs[1]
    ref = refphys.passive_step(scheme, parents, ncomps, val, val["v"], dt, stim)
    scale = 1.0 + float(np.max(np.abs(ref)))
    if not np.all(np.isfinite(got)):
        return "violation", {"rule": "finite", "max_err": None}
    err = float(np.max(np.abs(got - ref)))
    if dt <= 1e3:
        if err > 1e-7 * scale:
            return "violation", {"rule": "matches_reference", "max_err": err, "got": got.tolist(), "ref": ref.tolist()}
    if scheme == "bwd_euler":
        be = refphys.backward_error(scheme, parents, ncomps, val, val["v"], got, dt, stim)
        if be > 1e-11:
            return "violation", {"rule": "backward_error", "max_err": be, "got": got.tolist(), "ref": ref.tolist()}
    return "ok", {"ref_digest": digest([round(float(x), 9) for x in ref]), "moved": bool(np.max(np.abs(ref - val["v"])) > 1e-9)}


def monitor(item):
    """Assumption monitor (DESIGN §4; never part of the verdict): trace one voltage step with respect to (states, parameters) and
    list the value-dependent control-flow / comparison primitives in the jaxpr.  For a fixed shape the update should be
    straight-line arithmetic in the parameter values, which is what lets generic valuations stand for all positive values."""
    import jax
    import jax.numpy as jnp
    from jaxley.integrate import build_init_and_step_fn

    desc = item["desc"]
    parents, ncomps = build.forest_of_desc(desc)
    n = int(sum(ncomps))
    module = build.module_of(desc)
    build.apply_passive_valuation(module, vals.valuation(n, 1))
    if item.get("with_hh"):
        from jaxley.channels import HH

        module.insert(HH())  # non-vacuity control: the exp clip and the x/expm1 guard ARE value-dependent
    found = {}
    for backend in BACKENDS:
        for scheme in ("bwd_euler", "crank_nicolson"):
            module.to_jax()
            init_fn, step_fn = build_init_and_step_fn(module, voltage_solver=backend, solver=scheme)
            states, params = init_fn([], None, None, 0.025)

            def f(states, params):
                return step_fn(dict(states), params, {"i": jnp.asarray([0.1])}, {"i": np.asarray([0])}, 0.025)["v"]

            try:
                jaxpr = jax.make_jaxpr(f)(states, params)
            except Exception as e:
                found[f"{backend}:{scheme}"] = f"not traceable: {type(e).__name__}"
                continue
            prims = {}
            WATCH = ("cond", "while", "select_n", "lt", "le", "gt", "ge", "eq", "ne", "sign", "abs", "max", "min", "clamp",
                     "sort", "argmax", "argmin", "floor", "ceil", "round")

            def subjaxprs(eqn):
                for v in eqn.params.values():
                    for w in (v if isinstance(v, (list, tuple)) else [v]):
                        sub = getattr(w, "jaxpr", None)
                        if sub is not None:
                            yield sub if hasattr(sub, "eqns") else sub.jaxpr
                        elif hasattr(w, "eqns"):
                            yield w

            def walk(jp, tainted_in):
                """Data-flow: only primitives with an operand that depends on the traced (float) inputs are value-dependent."""
                tainted = set(id(v) for v, t in zip(jp.invars, tainted_in) if t)
                for eqn in jp.eqns:
                    ops = [(not hasattr(v, "val")) and id(v) in tainted for v in eqn.invars]
                    dep = any(ops)
                    if dep and eqn.primitive.name in WATCH:
                        prims[eqn.primitive.name] = prims.get(eqn.primitive.name, 0) + 1
                    for sub in subjaxprs(eqn):
                        t_in = ops if len(sub.invars) == len(ops) else [dep] * len(sub.invars)
                        walk(sub, t_in)
                    if dep:
                        for o in eqn.outvars:
                            tainted.add(id(o))

            walk(jaxpr.jaxpr, [True] * len(jaxpr.jaxpr.invars))
            found[f"{backend}:{scheme}"] = prims
    return {"evals": 0, "monitor": {"desc": desc, "with_hh_control": bool(item.get("with_hh")), "value_dependent_primitives": found}}


def work(item):
    cfg = item["cfg"]
    desc = {k: v for k, v in item.items() if k not in ("cfg",)}
    parents, ncomps = build.forest_of_desc(desc)
    n = int(sum(ncomps))
    out = {"digests": [], "cover": [], "refusals": [], "violations": [], "evals": 0}
    if desc["kind"] == "cell":
        out["cover"] += scope.morph_predicates(parents, ncomps)
    if desc["kind"] == "net":
        depths = [max(scope.levels(c["parents"])) for c in desc["cells"]]
        if len(set(depths)) > 1:
            out["cover"].append("net_cells_of_different_depth")
        if desc["cells"][-1]["ncomps"] == [1]:
            out["cover"].append("net_ends_in_point_cell")
    module = build.module_of(desc)
    first = True
    for vid in cfg["valuations"]:
        val = vals.valuation(n, vid)
        build.apply_passive_valuation(module, val, leak=first)
        if not first:
            module.set("Leak_gLeak", np.asarray(val["g"]))
            module.set("Leak_eLeak", np.asarray(val["e"]))
        first = False
        for dt in cfg["dts"]:
            for scheme in cfg.get("schemes", SCHEMES):
                if scheme == "fwd_euler" and dt > 1.0:
                    continue  # explicit scheme: only the stable-ish steps are meaningful
                for backend in BACKENDS:
                    out["evals"] += 1
                    status, info = check_one(desc, vid, dt, scheme, backend, module=module)
                    if status == "refused":
                        out["refusals"].append(f"{backend}:{scheme}:{desc['kind']}:{info}")
                    elif status == "ok":
                        out["cover"].append(f"accepted:{backend}:{scheme}")
                        if info["moved"]:
                            out["digests"].append(digest([parents, ncomps, vid, dt, scheme, info["ref_digest"]]))
                    else:
                        sig = {
                            "rule": info["rule"],
                            "backend": backend if backend == "jax.sparse" else "jaxley.stone/thomas",
                            "scheme": scheme,
                            "kind": desc["kind"],
                            "class": _classify(desc, parents, ncomps),
                        }
                        wit = {"desc": desc, "valuation": vid, "dt": dt, "scheme": scheme, "backend": backend}
                        out["violations"].append({"sig": sig, "witness": wit, "msg": f"max_err={info['max_err']}"})
    # single-parameter edits on the already simulated module (derived quantities such as axial conductances must follow every
    # one of them): change ONE of capacitance / radius / length / axial_resistivity on the same instance and step again
    if cfg.get("single_param_edits", True):
        val = dict(vals.valuation(n, cfg["valuations"][-1]))
        other = vals.valuation(n, 7)
        for key in ("capacitance", "radius", "length", "axial_resistivity"):
            val[key] = np.where(np.arange(n) % 2 == 0, other[key], val[key]) if n > 1 else other[key]
            module.set(key, np.asarray(val[key]))
            for backend in cfg.get("edit_backends", ("jaxley.stone", "jax.sparse")):
                out["evals"] += 1
                status, info = _check_with_val(desc, val, 0.025, "bwd_euler", backend, module)
                if status == "refused":
                    out["refusals"].append(f"{backend}:bwd_euler:{desc['kind']}:{info}")
                elif status == "ok":
                    out["cover"].append("single_parameter_edit_after_simulation")
                else:
                    sig = {"rule": info["rule"], "backend": backend if backend == "jax.sparse" else "jaxley.stone/thomas", "scheme": "bwd_euler",
                           "kind": desc["kind"], "class": "after_editing_only_" + key}
                    wit = {"desc": desc, "valuation": cfg["valuations"][-1], "dt": 0.025, "scheme": "bwd_euler", "backend": backend,
                           "edit_sequence_up_to": key}
                    out["violations"].append({"sig": sig, "witness": wit, "msg": f"max_err={info['max_err']}"})
    out["sample"] = {"desc": desc, "valuations": cfg["valuations"], "dts": cfg["dts"]}
    return out


def _check_with_val(desc, val, dt, scheme, backend, module):
    """Like check_one but with an explicit valuation dict already applied to `module`."""
    parents, ncomps = build.forest_of_desc(desc)
    n = int(sum(ncomps))
    stim = _stim(n, val)
    ext = {"i": np.asarray([s[1] for s in stim])}
    inds = {"i": np.asarray([s[0] for s in stim])}
    try:
        vs, _ = build.eager_step(module, scheme, backend, dt, ext, inds, nsteps=1)
    except Exception as e:
        return "refused", f"{type(e).__name__}"
    got = vs[1]
    ref = refphys.passive_step(scheme, parents, ncomps, val, val["v"], dt, stim)
    scale = 1.0 + float(np.max(np.abs(ref)))
    err = float(np.max(np.abs(got - ref))) if np.all(np.isfinite(got)) else float("inf")
    if err > 1e-7 * scale:
        return "violation", {"rule": "matches_reference", "max_err": err}
    return "ok", {}


def _replay_edit_sequence(w):
    """Replay a single-parameter-edit witness: simulate with the base valuation first, then apply the edits in order."""
    desc = w["desc"]
    parents, ncomps = build.forest_of_desc(desc)
    n = int(sum(ncomps))
    val = dict(vals.valuation(n, w["valuation"]))
    module = build.module_of(desc)
    build.apply_passive_valuation(module, val)
    _check_with_val(desc, val, 0.025, "bwd_euler", w["backend"], module)
    other = vals.valuation(n, 7)
    status, info = "ok", {}
    for key in ("capacitance", "radius", "length", "axial_resistivity"):
        val[key] = np.where(np.arange(n) % 2 == 0, other[key], val[key]) if n > 1 else other[key]
        module.set(key, np.asarray(val[key]))
        status, info = _check_with_val(desc, val, 0.025, "bwd_euler", w["backend"], module)
        if key == w["edit_sequence_up_to"]:
            break
    return status, info, "after_editing_only_" + w["edit_sequence_up_to"]


def _classify(desc, parents, ncomps):
    """Coarse class of the failing shape, used in signatures so that different defects stay apart."""
    if desc["kind"] == "net":
        pt = [c["ncomps"] == [1] and c["parents"] == [-1] for c in desc["cells"]]
        if all(len(c["parents"]) == 1 for c in desc["cells"]):
            return "net_of_unbranched_cells" + ("_ending_in_point_cell" if pt[-1] else "")
        cl = [scope.morph_predicates(c["parents"], c["ncomps"]) for c in desc["cells"]]
        if any("padded_branch_with_children" in c for c in cl):
            return "net_with_padded_parent"
        return "net_branched" + ("_ending_in_point_cell" if pt[-1] else "")
    if desc["kind"] == "cell":
        pr = scope.morph_predicates(parents, ncomps)
        if "padded_branch_with_children" in pr:
            return "padded_branch_with_children"
        if "padded_leaf" in pr:
            return "padded_leaf"
        return "regular_cell"
    return desc["kind"]


def replay(w):
    if w.get("edit_sequence_up_to"):
        status, info, cls = _replay_edit_sequence(w)
        if status != "violation":
            return []
        return [{"sig": {"rule": info["rule"], "backend": w["backend"] if w["backend"] == "jax.sparse" else "jaxley.stone/thomas",
                         "scheme": "bwd_euler", "kind": w["desc"]["kind"], "class": cls}, "witness": w, "msg": f"max_err={info['max_err']}"}]
    status, info = check_one(w["desc"], w["valuation"], w["dt"], w["scheme"], w["backend"])
    if status != "violation":
        return []
    parents, ncomps = build.forest_of_desc(w["desc"])
    sig = {
        "rule": info["rule"],
        "backend": w["backend"] if w["backend"] == "jax.sparse" else "jaxley.stone/thomas",
        "scheme": w["scheme"],
        "kind": w["desc"]["kind"],
        "class": _classify(w["desc"], parents, ncomps),
    }
    return [{"sig": sig, "witness": w, "msg": f"max_err={info['max_err']}"}]
