"""C02 — axial coupling conserves charge, is reciprocal, never overshoots.

Physical identities with no reference solver, evaluated on every module of the bounded scope.
"""
from __future__ import annotations

import numpy as np

from vf import build, refphys, scope, vals
from vf.runner import digest

ID = "C02"
LEVEL = "exploration"
RULE = (
    "every cell with <= 4 (quick) / <= 5 (thorough) branches over all parent vectors x ncomp vectors, plus branches and "
    "two networks (one with a synapse); for each: one real voltage step per dt in {1e-3,0.025,1,1e3,1e6,1e9} x backend "
    "(bwd_euler) and dt in {0.025,1} (crank_nicolson); identities: (a) charge balance, (b) uniform stays uniform, "
    "(c) maximum principle, (d) reciprocity over ALL ordered compartment pairs; distinct = (morphology, dt, scheme) whose "
    "gross charge flux is non-zero"
)
REQUIRED_COVER = ["heterogeneous_radii_across_branchpoint", "dt_1e9", "pair_in_different_cells", "synaptic_charge",
                  "stimulated", "crank_nicolson", "uniform", "reciprocity_pairs"]
ASSUMPTIONS = [
    "membrane areas are the lateral cylinder areas 2*pi*r*l stated in jaxley's docs (units um, uF/cm2, S/cm2, nA)",
    "values are generic valuations (DESIGN §4)",
]
BACKENDS = ["jaxley.stone", "jaxley.thomas", "jax.sparse"]
DTS = [1e-3, 0.025, 1.0, 1e3, 1e6, 1e9]


def _items(tier):
    items = [{"kind": "branch", "ncomp": n} for n in (1, 2, 4)]
    seen = set()
    gens = [scope.cells(4, (1, 2))] if tier == "quick" else [scope.cells(5, (1, 2)), scope.cells(4, (1, 2, 3))]
    for g in gens:
        for p, nc in g:
            if (p, nc) in seen or len(p) < 2:
                continue
            seen.add((p, nc))
            items.append({"kind": "cell", "parents": list(p), "ncomps": list(nc)})
    items.append({"kind": "net", "cells": [{"parents": [-1, 0], "ncomps": [2, 1]}, {"parents": [-1, 0, 0], "ncomps": [2, 1, 1]}]})
    items.append({"kind": "net", "cells": [{"parents": [-1, 0, 0], "ncomps": [1, 2, 1]}, {"parents": [-1], "ncomps": [1]}], "synapse": True})
    return items


def explore(ctx):
    items = _items(ctx.tier)
    ctx.note("modules", len(items))
    ctx.note("dts", DTS)
    ctx.map("work", [dict(it, tier=ctx.tier) for it in items])


def _charge_terms(val, v0, v1, dt, stim, scheme):
    """Returns (residual, gross) in nA: sum A c dv/dt - (I - sum A g (v*-E)) with v* = v1 (bwd) or midpoint (CN)."""
    A = refphys.areas_cm2(val["radius"], val["length"])
    C = val["capacitance"] * A * 1e3  # nF
    g = val["g"] * A * 1e6  # uS
    vstar = v1 if scheme == "bwd_euler" else (v0 if scheme == "fwd_euler" else 0.5 * (v0 + v1))
    cap = np.sum(C * (v1 - v0)) / dt
    leak = np.sum(g * (vstar - val["e"]))
    inj = sum(a for _, a in stim)
    resid = cap - (inj - leak)
    gross = abs(inj) + np.sum(np.abs(g * (vstar - val["e"]))) + np.sum(np.abs(C * (v1 - v0))) / dt
    # rounding floor: the fluxes are differences of O(|v|) quantities; 1e-11 of the un-cancelled magnitudes
    floor = 1e-11 * (abs(inj) + np.sum(g * (np.abs(vstar) + np.abs(val["e"]))) + np.sum(C * (np.abs(v1) + np.abs(v0))) / dt)
    return float(resid), float(gross), float(floor)


def check_module(desc, tier="quick"):
    out = {"violations": [], "cover": [], "refusals": [], "digests": [], "evals": 0}
    parents, ncomps = build.forest_of_desc(desc)
    n = int(sum(ncomps))
    val = vals.valuation(n, 1)
    module = build.module_of(desc)
    build.apply_passive_valuation(module, val)
    has_syn = bool(desc.get("synapse"))
    syn = None
    if has_syn:
        from jaxley.connect import connect
        from jaxley.synapses import IonotropicSynapse

        connect(module.cell(0).branch(1).comp(1), module.cell(1).branch(0).comp(0), IonotropicSynapse())
        module.set("IonotropicSynapse_gS", 5e-4)
        module.set("IonotropicSynapse_e_syn", -10.0)
        module.set("IonotropicSynapse_s", 0.6)
        syn = {"post": n - 1, "g": 5e-4, "e": -10.0}
        out["cover"].append("synaptic_charge")
    if desc["kind"] == "cell":
        ch = scope.children(parents)
        cum = refphys.comp_offsets(ncomps)
        for p, cs in ch.items():
            if cs and any(abs(val["radius"][cum[p + 1] - 1] - val["radius"][cum[c]]) > 1e-3 for c in cs):
                out["cover"].append("heterogeneous_radii_across_branchpoint")
                break
    wit0 = {"desc": desc}

    def viol(rule, backend, dt, scheme, msg):
        out["violations"].append({
            "sig": {"rule": rule, "backend": backend if backend == "jax.sparse" else "jaxley.stone/thomas", "scheme": scheme,
                    "kind": desc["kind"], "huge_dt": bool(dt > 1e3)},
            "witness": dict(wit0, backend=backend, dt=dt, scheme=scheme, rule=rule), "msg": msg})

    def step(backend, scheme, dt, stim):
        ext = {"i": np.asarray([a for _, a in stim])} if stim else {}
        inds = {"i": np.asarray([c for c, _ in stim])} if stim else {}
        out["evals"] += 1
        try:
            vs, st = build.eager_step(module, scheme, backend, dt, ext, inds, nsteps=1)
        except AssertionError:
            out["refusals"].append(f"{backend}:{desc['kind']}:AssertionError")
            return None, None
        return vs[1], st

    v0 = val["v"]
    lo = min(v0.min(), val["e"].min())
    hi = max(v0.max(), val["e"].max())
    stim_sets = {"none": [], "two": [(0, 0.37), (n - 1, -0.21)]}
    for backend in BACKENDS:
        for dt in DTS:
            if tier == "quick" and backend == "jaxley.thomas" and dt not in (0.025, 1e9):
                continue  # thomas shares everything but the tridiagonal kernel with stone
            for sname in (["none", "two"] if dt in (0.025, 1e3) else ["none"]):
                if has_syn and sname == "two":
                    continue
                stim = stim_sets[sname]
                v1, st = step(backend, "bwd_euler", dt, stim)
                if v1 is None:
                    continue
                if not np.all(np.isfinite(v1)):
                    viol("finite", backend, dt, "bwd_euler", "non-finite voltages")
                    continue
                resid, gross, floor = _charge_terms(val, v0, v1, dt, stim, "bwd_euler")
                if syn is not None:
                    s_new = float(np.asarray(st["IonotropicSynapse_s"])[0])
                    isyn = syn["g"] * s_new * (v1[syn["post"]] - syn["e"])
                    resid += isyn
                    gross += abs(isyn)
                tol = 1e-8 if dt <= 1e3 else 1e-6
                if abs(resid) > tol * gross + floor:
                    viol("charge_conservation", backend, dt, "bwd_euler", f"residual {resid:.3e} nA of gross {gross:.3e} ({sname})")
                if gross > 0:
                    out["digests"].append(digest([parents, ncomps, dt, "bwd", sname, has_syn]))
                if sname == "none" and syn is None:
                    tolv = 1e-9 * (1 + abs(hi) + abs(lo))
                    if v1.min() < lo - tolv or v1.max() > hi + tolv:
                        viol("maximum_principle", backend, dt, "bwd_euler", f"v' in [{v1.min()}, {v1.max()}] outside [{lo}, {hi}]")
                if sname == "two":
                    out["cover"].append("stimulated")
                if dt == 1e9:
                    out["cover"].append("dt_1e9")
        for dt in (0.025, 1.0):
            if has_syn or (tier == "quick" and backend == "jaxley.thomas"):
                continue
            stim = stim_sets["two"]
            v1, st = step(backend, "crank_nicolson", dt, stim)
            if v1 is None:
                continue
            resid, gross, floor = _charge_terms(val, v0, v1, dt, stim, "crank_nicolson")
            if abs(resid) > 1e-8 * gross + floor:
                viol("charge_conservation", backend, dt, "crank_nicolson", f"residual {resid:.3e} nA of gross {gross:.3e}")
            out["cover"].append("crank_nicolson")
            out["digests"].append(digest([parents, ncomps, dt, "cn"]))

    # explicit step (only offered for unbranched modules): the same balance with the membrane currents taken at the old voltages
    if not has_syn and all(p == -1 for p in parents):
        for dt in (0.025, 0.005):
            stim = stim_sets["two"]
            try:
                v1, st = step("jaxley.stone", "fwd_euler", dt, stim)
            except Exception as e:
                out["refusals"].append(f"fwd_euler:{desc['kind']}:{type(e).__name__}")
                continue
            if v1 is None:
                continue
            resid, gross, floor = _charge_terms(val, v0, v1, dt, stim, "fwd_euler")
            if not np.all(np.isfinite(v1)) or abs(resid) > 1e-8 * gross + floor:
                viol("charge_conservation", "jaxley.stone", dt, "fwd_euler", f"residual {resid:.3e} nA of gross {gross:.3e}")
            out["cover"].append("fwd_euler")
            out["digests"].append(digest([parents, ncomps, dt, "fwd"]))

    # (d) reciprocity over all ordered pairs, dt = 1.0
    if not has_syn:
        cell_of_comp = _cell_of_comp(desc, ncomps)
        for backend in (["jaxley.stone", "jax.sparse"] if tier == "quick" else BACKENDS):
            base, _ = step(backend, "bwd_euler", 1.0, [])
            if base is None:
                continue
            T = np.zeros((n, n))
            ok = True
            for j in range(n):
                vj, _ = step(backend, "bwd_euler", 1.0, [(j, 0.5)])
                if vj is None:
                    ok = False
                    break
                T[:, j] = vj - base
            if not ok:
                continue
            scale = float(np.max(np.abs(T)))
            asym = float(np.max(np.abs(T - T.T)))
            out["cover"].append("reciprocity_pairs")
            if asym > 1e-9 * scale:
                i, j = np.unravel_index(np.argmax(np.abs(T - T.T)), T.shape)
                viol("reciprocity", backend, 1.0, "bwd_euler", f"T[{i},{j}]={T[i,j]} T[{j},{i}]={T[j,i]} scale {scale}")
            if np.any(np.diag(T) <= 0):
                viol("reciprocity", backend, 1.0, "bwd_euler", "non-positive input response")
            for i in range(n):
                for j in range(n):
                    if cell_of_comp[i] != cell_of_comp[j]:
                        out["cover"].append("pair_in_different_cells")
                        if T[i, j] != 0.0 and abs(T[i, j]) > 1e-13 * scale:
                            viol("cross_cell_leak", backend, 1.0, "bwd_euler", f"T[{i},{j}]={T[i,j]}")
            out["digests"].append(digest([parents, ncomps, "recip", backend]))

    # (b) uniform, unstimulated, E = v  =>  v' = v
    if not has_syn:
        uni = vals.valuation(n, 0)
        uni["e"] = uni["v"].copy()
        build.apply_passive_valuation(module, uni, leak=False)
        module.set("Leak_gLeak", np.asarray(uni["g"]))
        module.set("Leak_eLeak", np.asarray(uni["e"]))
        for backend in BACKENDS:
            for dt in (0.025, 1e3):
                v1, _ = step(backend, "bwd_euler", dt, [])
                if v1 is None:
                    continue
                out["cover"].append("uniform")
                if float(np.max(np.abs(v1 - uni["v"]))) > 1e-10:
                    viol("uniform_stays_uniform", backend, dt, "bwd_euler", f"max dev {np.max(np.abs(v1-uni['v']))}")
    out["sample"] = {"desc": desc}
    return out


def _cell_of_comp(desc, ncomps):
    if desc["kind"] != "net":
        return [0] * int(sum(ncomps))
    out = []
    for ci, c in enumerate(desc["cells"]):
        out += [ci] * int(sum(c["ncomps"]))
    return out


def work(item):
    tier = item.get("tier", "quick")
    desc = {k: v for k, v in item.items() if k != "tier"}
    return check_module(desc, tier)


def replay(w):
    r = check_module(w["desc"])
    return [v for v in r["violations"] if v["sig"]["rule"] == w["rule"] and v["witness"]["backend"] == w["backend"]
            and v["witness"]["dt"] == w["dt"] and v["witness"]["scheme"] == w["scheme"]]
