"""C05 — gradients obtained by differentiating through a simulation are correct.

Bounded-exhaustive over (model x trainable kind x scheme x backend x checkpoint layout): jax.grad of a
generically weighted quadratic loss of the recordings through the real integrate, compared with
converged central finite differences (two step sizes) in float64.
"""
from __future__ import annotations

import numpy as np

from vf import models
from vf.runner import digest

ID = "C05"
LEVEL = "exploration"
RULE = (
    "three models (1-compartment HH; cell ncomp [2,1] with HH+Leak and stimulus; 2-cell network with two synapse types) x every trainable kind "
    "available on the model (channel g, radius, length, axial resistivity, capacitance, initial v incl. -55.0/-40.0 exactly, initial gate, "
    "synapse g, initial synaptic state, data_stimulate amplitude, data_set value, parameter shared over groups of unequal size) x "
    "{bwd_euler, crank_nicolson} x three backends x checkpoint_lengths {None, exact, product > steps}; quick: every kind once with the default "
    "configuration + a cross of four representative kinds with all configurations; thorough: full product. Oracle: jax.grad vs central "
    "differences at relative steps 1e-4 and 1e-5 (both must agree, else inconclusive). distinct = configurations with a non-zero gradient"
)
REQUIRED_COVER = ["kind:channel_g", "kind:radius_unequal_groups", "kind:length", "kind:axial_resistivity", "kind:capacitance", "kind:init_v_singular",
                  "kind:init_gate", "kind:synapse_g", "kind:init_syn_state", "kind:ball_geometry", "kind:chunked_with_surplus_steps", "kind:data_stimulus_samples_incl_zero", "kind:data_stimulate", "kind:data_set", "scheme:crank_nicolson",
                  "backend:jaxley.thomas", "backend:jax.sparse", "ckpt:exact", "ckpt:over", "nonzero_gradient"]
ASSUMPTIONS = [
    "runs are 5 steps long; losses are weighted quadratic forms of the recordings",
    "finite differences that do not converge (two step sizes disagree by more than 1e-6 relative) make a configuration inconclusive, not a violation",
]
T = 5
DT = 0.025
BACKENDS = ["jaxley.stone", "jaxley.thomas", "jax.sparse"]
SCHEMES = ["bwd_euler", "crank_nicolson"]
CKPTS = {"none": None, "exact": [5, 1], "over": [2, 3]}

# kind -> (model, setup(module) -> dict(mode, view/keys...))
KINDS = {
    # ---- single compartment
    "comp:channel_g": ("comp_hh", {"mode": "train", "calls": [("self", "HH_gNa")]}),
    "comp:radius": ("comp_hh", {"mode": "train", "calls": [("self", "radius")]}),
    "comp:length": ("comp_hh", {"mode": "train", "calls": [("self", "length")]}),
    "comp:capacitance": ("comp_hh", {"mode": "train", "calls": [("self", "capacitance")]}),
    "comp:init_v": ("comp_hh", {"mode": "train", "calls": [("self", "v")], "set_v": [-55.0]}),
    "comp:init_gate": ("comp_hh", {"mode": "train", "calls": [("self", "HH_m")]}),
    "comp:data_stimulate": ("comp_hh", {"mode": "data_stim"}),
    "comp:data_set": ("comp_hh", {"mode": "data_set", "key": "HH_gK", "view": "self"}),
    # ---- cell [2,1]
    "cell:channel_g": ("cell_hh_leak", {"mode": "train", "calls": [("b0", "HH_gNa")]}),
    "cell:radius_unequal_groups": ("cell_hh_leak", {"mode": "train", "calls": [("ball", "radius")]}),
    "cell:length": ("cell_hh_leak", {"mode": "train", "calls": [("self", "length")]}),
    "cell:axial_resistivity": ("cell_hh_leak", {"mode": "train", "calls": [("self", "axial_resistivity")]}),
    "cell:capacitance": ("cell_hh_leak", {"mode": "train", "calls": [("call", "capacitance")]}),
    "cell:init_v_singular": ("cell_hh_leak", {"mode": "train", "calls": [("call", "v")], "set_v": [-55.0, -40.0, -63.5]}),
    "cell:init_gate": ("cell_hh_leak", {"mode": "train", "calls": [("b0", "HH_h")]}),
    "cell:two_trainables": ("cell_hh_leak", {"mode": "train", "calls": [("b0", "HH_gK"), ("ball", "length")]}),
    "cell:data_stimulate": ("cell_hh_leak", {"mode": "data_stim"}),
    "cell:data_set": ("cell_hh_leak", {"mode": "data_set", "key": "Leak_gLeak", "view": "b1"}),
    "cell:data_set_radius": ("cell_hh_leak", {"mode": "data_set", "key": "radius", "view": "b0"}),
    # ---- "ball" compartments: length == 2 * radius exactly (what read_swc makes of a single-point soma) -- a special point of the
    # geometry at which value-equal special-case formulas (sphere vs cylinder area) would have different partial derivatives
    "comp:ball_radius": ("comp_hh", {"mode": "train", "calls": [("self", "radius")], "geom": [("self", 10.0)]}),
    "comp:ball_length": ("comp_hh", {"mode": "train", "calls": [("self", "length")], "geom": [("self", 10.0)]}),
    "cell:ball_soma": ("cell_hh_leak", {"mode": "train", "calls": [("b0c0", "radius"), ("b0c0", "length")], "geom": [("b0c0", 8.0)]}),
    "net:ball_postsynaptic": ("net_syn", {"mode": "train", "calls": [("postI", "radius"), ("postI", "length")], "geom": [("postI", 6.0)]}),
    # ---- chunked simulation: the loss reads the recordings of a SECOND integrate call that continues from the states returned by a
    # first call whose checkpoint layout is longer than its run (surplus steps are masked): gradients must flow through the hand-over
    "cell:chunked_over": ("cell_hh_leak", {"mode": "train", "calls": [("b0", "HH_gNa"), ("ball", "radius")], "chunked": [2, 2]}),
    "cell:chunked_exact": ("cell_hh_leak", {"mode": "train", "calls": [("b0", "HH_gNa"), ("ball", "radius")], "chunked": [3, 1]}),
    # ---- the samples of a data-fed stimulus themselves (a learned trace), several of them exactly 0.0
    "comp:data_stimulus_trace": ("comp_hh", {"mode": "data_stim_trace", "trace": [0.0, 0.3, 0.0, 0.0, 0.2], "fd_floor": 0.1}),
    "cell:data_stimulus_trace": ("cell_hh_leak", {"mode": "data_stim_trace", "trace": [0.0, 0.0, 0.4, 0.0, 0.0], "fd_floor": 0.1}),
    # ---- network
    "net:synapse_g": ("net_syn", {"mode": "train", "calls": [("Iono", "IonotropicSynapse_gS")]}),
    "net:synapse_g_edge": ("net_syn", {"mode": "train", "calls": [("Test_e0", "TestSynapse_gC")]}),
    "net:init_syn_state": ("net_syn", {"mode": "train", "calls": [("Iono", "IonotropicSynapse_s")]}),
    "net:radius": ("net_syn", {"mode": "train", "calls": [("c0", "radius")]}),
    "net:channel_g": ("net_syn", {"mode": "train", "calls": [("c1", "HH_gK")]}),
    "net:init_v": ("net_syn", {"mode": "train", "calls": [("c1b0", "v")]}),
    "net:data_stimulate": ("net_syn", {"mode": "data_stim"}),
}
COVER_OF_KIND = {
    "channel_g": "kind:channel_g", "radius_unequal_groups": "kind:radius_unequal_groups", "length": "kind:length",
    "axial_resistivity": "kind:axial_resistivity", "capacitance": "kind:capacitance", "init_v_singular": "kind:init_v_singular",
    "init_v": "kind:init_v_singular", "init_gate": "kind:init_gate", "synapse_g": "kind:synapse_g", "synapse_g_edge": "kind:synapse_g",
    "data_stimulus_trace": "kind:data_stimulus_samples_incl_zero",
    "chunked_over": "kind:chunked_with_surplus_steps", "chunked_exact": "kind:chunked",
    "ball_radius": "kind:ball_geometry", "ball_length": "kind:ball_geometry", "ball_soma": "kind:ball_geometry", "ball_postsynaptic": "kind:ball_geometry",
    "init_syn_state": "kind:init_syn_state", "data_stimulate": "kind:data_stimulate", "data_set": "kind:data_set", "data_set_radius": "kind:data_set",
}
CROSS_KINDS = ["cell:channel_g", "cell:radius_unequal_groups", "net:synapse_g", "cell:init_v_singular"]


def _view(m, name):
    return {
        "self": lambda: m, "b0": lambda: m.branch(0), "b1": lambda: m.branch(1), "ball": lambda: m.branch("all"), "call": lambda: m.comp("all"),
        "Iono": lambda: m.IonotropicSynapse, "Test_e0": lambda: m.TestSynapse.edge(0), "c0": lambda: m.cell(0), "c1": lambda: m.cell(1),
        "c1b0": lambda: m.cell(1).branch(0), "b0c0": lambda: m.branch(0).comp(0), "postI": lambda: m.cell(1).branch(2).comp(0),
    }[name]()


def _setup(kind):
    import jax.numpy as jnp

    model_name, spec = KINDS[kind]
    m = models.MODELS[model_name]()
    if "set_v" in spec:
        vv = list(spec["set_v"])
        n = len(m.nodes)
        arr = np.asarray((vv * n)[:n])
        m.set("v", arr)
    for vname, r in spec.get("geom", []):
        _view(m, vname).set("radius", r)
        _view(m, vname).set("length", 2.0 * r)
    m.record("v", verbose=False)
    if model_name == "net_syn":
        stim_view = m.cell(0).branch(0).comp(0)
        m.IonotropicSynapse.edge(0).record("IonotropicSynapse_s", verbose=False)
    elif model_name == "cell_hh_leak":
        stim_view = m.branch(0).comp(0)
        m.branch(0).comp(1).record("HH_m", verbose=False)
    else:
        stim_view = m
        m.record("HH_n", verbose=False)
    base_stim = jnp.asarray(models.stim_series(T, 1) * 2.0)
    if spec["mode"] not in ("data_stim", "data_stim_trace"):
        stim_view.stimulate(base_stim, verbose=False)
    if spec["mode"] == "train":
        for vname, key in spec["calls"]:
            _view(m, vname).make_trainable(key, verbose=False)
    return m, spec, stim_view, base_stim


def run_config(kind, scheme, backend, ckname):
    import jax
    import jax.numpy as jnp
    import jaxley as jx

    out = {"violations": [], "cover": [], "refusals": [], "digests": [], "evals": 1}
    wit = {"kind": kind, "scheme": scheme, "backend": backend, "ckpt": ckname}
    short = kind.split(":")[1]

    def viol(rule, msg):
        out["violations"].append({"sig": {"rule": rule, "kind": short, "model": kind.split(":")[0], "scheme": scheme,
                                          "backend_family": "sparse" if backend == "jax.sparse" else "jaxley", "ckpt": ckname},
                                  "witness": wit, "msg": msg})

    try:
        m, spec, stim_view, base_stim = _setup(kind)
    except Exception as e:
        viol("setup_raised", f"{type(e).__name__}: {str(e)[:200]}")
        return out
    ck = CKPTS[ckname]
    kw = dict(delta_t=DT, solver=scheme, voltage_solver=backend, checkpoint_lengths=ck)
    nrec = len(m.recordings)
    W = jnp.asarray(1.0 + 0.37 * np.sin(1.7 * np.arange(nrec * (T + 1)))).reshape(nrec, T + 1)

    if spec["mode"] == "train":
        p0 = m.get_parameters()
        flat0 = np.concatenate([np.asarray(list(p.values())[0], float).ravel() for p in p0])
        shapes = [(list(p.keys())[0], np.asarray(list(p.values())[0]).shape) for p in p0]

        def unflat(theta):
            out_, i = [], 0
            for key, shp in shapes:
                n = int(np.prod(shp))
                out_.append({key: theta[i:i + n].reshape(shp)})
                i += n
            return out_

        if "chunked" in spec:
            kw1 = dict(kw, checkpoint_lengths=list(spec["chunked"]), t_max=2 * DT + DT / 2, return_states=True)  # 3 steps

            def loss(theta):
                p = unflat(theta)
                rec1, st = jx.integrate(m, params=p, **kw1)
                rec2 = jx.integrate(m, params=p, all_states=st, **kw)
                return jnp.sum(W[:, :4] * (rec1 + 60.0) ** 2) + jnp.sum(W * (rec2 + 60.0) ** 2)
        else:
            def loss(theta):
                rec = jx.integrate(m, params=unflat(theta), **kw)
                return jnp.sum(W * (rec + 60.0) ** 2)
    elif spec["mode"] == "data_stim_trace":
        flat0 = np.asarray(spec["trace"], float)

        def loss(theta):
            ds = stim_view.data_stimulate(theta)
            rec = jx.integrate(m, data_stimuli=ds, **kw)
            return jnp.sum(W * (rec + 60.0) ** 2)
    elif spec["mode"] == "data_stim":
        flat0 = np.asarray([1.0])

        def loss(theta):
            ds = stim_view.data_stimulate(theta[0] * base_stim)
            rec = jx.integrate(m, data_stimuli=ds, **kw)
            return jnp.sum(W * (rec + 60.0) ** 2)
    else:
        view = _view(m, spec["view"])
        flat0 = np.asarray([float(np.nanmean(view.nodes[spec["key"]].to_numpy(float)))])

        def loss(theta):
            ps = view.data_set(spec["key"], theta[0], None)
            rec = jx.integrate(m, param_state=ps, **kw)
            return jnp.sum(W * (rec + 60.0) ** 2)

    theta0 = jnp.asarray(flat0)
    try:
        jl = jax.jit(loss)
        L0 = float(jl(theta0))
        g = np.asarray(jax.jit(jax.grad(loss))(theta0), float)
    except Exception as e:
        viol("grad_raised", f"{type(e).__name__}: {str(e)[:300]}")
        return out
    if not np.isfinite(L0) or not np.all(np.isfinite(g)):
        viol("gradient_not_finite", f"loss {L0} grad {g.tolist()}")
        return out
    fds = []
    for rel in (1e-4, 1e-5):
        fd = np.zeros_like(flat0)
        for i in range(len(flat0)):
            h = rel * max(abs(flat0[i]), float(spec.get("fd_floor", 1e-3)))
            e = np.zeros_like(flat0)
            e[i] = h
            fd[i] = (float(jl(jnp.asarray(flat0 + e))) - float(jl(jnp.asarray(flat0 - e)))) / (2 * h)
        fds.append(fd)
    fd = fds[1]  # the finer estimate
    scale = np.maximum(np.abs(fd), 1e-9 * (abs(L0) / np.maximum(np.abs(flat0), float(spec.get("fd_floor", 1e-3)))))
    fd_gap = np.abs(fds[0] - fds[1]) / scale
    if np.any(fd_gap > 1e-6):
        out["refusals"].append(f"inconclusive_fd:{short}")
        out["inconclusive"] = {"fd_gap": fd_gap.tolist(), "fd": fd.tolist(), "ad": g.tolist()}
        # still compare loosely: a wrong gradient is off by orders of magnitude more than the FD noise
        tol = 10 * fd_gap + 1e-5
    else:
        tol = np.full_like(fd, 1e-5)
    err = np.abs(g - fd) / scale
    if np.any(err > tol):
        i = int(np.argmax(err / tol))
        viol("gradient_mismatch", f"component {i}: AD {g[i]!r} vs FD {fd[i]!r} (rel {err[i]:.3e}, tol {tol[i]:.1e}); all AD {g.tolist()} FD {fd.tolist()}")
    if np.any(np.abs(fd) > 1e-6 * abs(L0) / np.maximum(np.abs(flat0), 1e-3)):
        out["cover"].append("nonzero_gradient")
        out["digests"].append(digest([kind, scheme, backend, ckname]))
    if short in COVER_OF_KIND:
        out["cover"].append(COVER_OF_KIND[short])
    out["cover"] += [f"scheme:{scheme}", f"backend:{backend}", f"ckpt:{ckname}"]
    out["sample"] = dict(wit, ad=g.tolist(), fd=fd.tolist())
    return out


def work(item):
    return run_config(item["kind"], item["scheme"], item["backend"], item["ckpt"])


def explore(ctx):
    items = []
    if ctx.tier == "quick":
        for kind in KINDS:
            items.append({"kind": kind, "scheme": "bwd_euler", "backend": "jaxley.stone", "ckpt": "none"})
        for kind in CROSS_KINDS:
            for scheme, backend, ck in [("crank_nicolson", "jaxley.stone", "none"), ("bwd_euler", "jaxley.thomas", "none"),
                                        ("bwd_euler", "jax.sparse", "none"), ("bwd_euler", "jaxley.stone", "exact"),
                                        ("bwd_euler", "jaxley.stone", "over"), ("crank_nicolson", "jax.sparse", "over")]:
                items.append({"kind": kind, "scheme": scheme, "backend": backend, "ckpt": ck})
    else:
        for kind in KINDS:
            for scheme in SCHEMES:
                for backend in BACKENDS:
                    for ck in CKPTS:
                        items.append({"kind": kind, "scheme": scheme, "backend": backend, "ckpt": ck})
    ctx.note("configurations", len(items))
    ctx.map("work", items)


def replay(w):
    return run_config(w["kind"], w["scheme"], w["backend"], w["ckpt"])["violations"]
