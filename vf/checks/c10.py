"""C10 — all ways of setting a parameter are equivalent and touch only what was selected.

Model checking over sequences of make_trainable calls (views x keys) on two real modules: the arrays that
reach the simulator (init_fn -> all_params / all_states) are compared with a reference selection semantics
written from the documentation (rows in view with a non-NaN key, grouped by the sharing rule of the view);
set == data_set == trainable in a 2-step simulation; write_trainables writes the simulated values.
"""
from __future__ import annotations

import copy
import itertools

import numpy as np

from vf import build, vals
from vf.runner import digest

ID = "C10"
LEVEL = "model_checking"
RULE = (
    "two modules (cell ncomp [2,1,3] with HH on a subset and a group; network of two cells with three synapses of two interleaved types); "
    "every (view, key) of a 12-view x 6-key table per module that selects something, all ordered pairs of them (quick: pairs on the cell, "
    "thorough: pairs on both and triples on the cell); per history: real make_trainable calls, new distinct values per created parameter, "
    "arrays from the real init_fn compared with the reference selection semantics, untouched rows compared with the tables; for single "
    "calls also set vs data_set vs trainable 2-step simulations and write_trainables; state = canonical (trainable keys, index groups)"
)
REQUIRED_COVER = ["chained_data_set_overlapping_rows", "param_state_object_reused", "data_set_through_original_view", "set_between_simulation_and_write_trainables", "init_val:zero", "init_val:float", "init_val:list", "unequal_groups_last_comp_outside", "unequal_groups_last_comp_inside", "nan_rows_skipped", "edge_key_through_type_view",
                  "edge_select", "shared_over_group", "state_key", "overlapping_trainables", "set_eq_data_set_eq_trainable",
                  "write_trainables", "initial_value_is_group_mean"]
ASSUMPTIONS = [
    "sharing rule per view kind as documented: module/group/channel/type views share one value, cell/branch/comp/edge views create one "
    "parameter per cell/branch/compartment/edge, select() creates one per row",
    "when two trainables overlap, the later make_trainable call wins (order of the parameter list)",
]
DT = 0.025
TOL = 1e-10

# ------------------------------------------------------------------ modules and view tables
# a view spec: (name, builder(module)->view, kind "node"/"edge", rows (global indices), share rule)
_cache = {}


def _cell():
    from jaxley.channels import HH

    c = build.cell_of([-1, 0, 0], [2, 1, 3])
    n = len(c.nodes)
    val = vals.valuation(n, 2)
    for key in ["radius", "length", "axial_resistivity", "capacitance"]:
        c.set(key, np.asarray(val[key]))
    c.set("v", -72.0 + 6.0 * vals.table("i", n, 5))
    c.branch([0, 2]).insert(HH())
    f = vals.table("i", n, 3)
    hh = [0, 1, 3, 4, 5]
    c.HH.set("HH_m", (0.3 + 0.4 * (f + 0.5))[hh])
    c.HH.set("HH_gNa", (0.1 + 0.05 * (f + 0.5))[hh])
    c.branch(1).add_to_group("g")
    c.branch(2).comp(0).add_to_group("g")
    c.record("v", verbose=False)
    c.branch(0).comp(0).stimulate(np.asarray([0.1, 0.05]), verbose=False)
    return c


def _net():
    J = build.jx()
    from jaxley.channels import HH
    from jaxley.connect import connect
    from jaxley.synapses import IonotropicSynapse, TestSynapse

    net = J.Network([build.cell_of([-1, 0], [2, 1]), build.cell_of([-1, 0, 0], [2, 1, 1])])
    n = len(net.nodes)
    val = vals.valuation(n, 3)
    for key in ["radius", "length", "axial_resistivity", "capacitance"]:
        net.set(key, np.asarray(val[key]))
    net.set("v", -71.0 + 5.0 * vals.table("i", n, 4))
    net.cell(0).insert(HH())
    connect(net.cell(0).branch(0).comp(0), net.cell(1).branch(1).comp(0), IonotropicSynapse())
    connect(net.cell(1).branch(0).comp(1), net.cell(0).branch(1).comp(0), TestSynapse())
    connect(net.cell(0).branch(1).comp(0), net.cell(1).branch(0).comp(0), IonotropicSynapse())
    for gi, (k, x) in enumerate([("IonotropicSynapse_gS", 3e-4), ("TestSynapse_gC", 5e-4), ("IonotropicSynapse_gS", 7e-4)]):
        net.select(edges=[gi]).set(k, x)
    net.select(edges=[0]).set("IonotropicSynapse_s", 0.3)
    net.select(edges=[2]).set("IonotropicSynapse_s", 0.6)
    net.record("v", verbose=False)
    net.cell(0).branch(0).comp(0).stimulate(np.asarray([0.1, 0.05]), verbose=False)
    return net


def _module(name):
    if name not in _cache:
        _cache[name] = _cell() if name == "cell" else _net()
    return _cache[name]


# rows of the cell: branch0: 0,1 ; branch1: 2 ; branch2: 3,4,5.   HH on 0,1,3,4,5.   group g: 2,3
CELL_VIEWS = [
    ("module", lambda m: m, "node", [0, 1, 2, 3, 4, 5], "all"),
    ("branch(0)", lambda m: m.branch(0), "node", [0, 1], "branch"),
    ("branch([0,1])", lambda m: m.branch([0, 1]), "node", [0, 1, 2], "branch"),
    ("branch('all')", lambda m: m.branch("all"), "node", [0, 1, 2, 3, 4, 5], "branch"),
    ("branch([1,2])", lambda m: m.branch([1, 2]), "node", [2, 3, 4, 5], "branch"),
    ("branch(2).comp(1)", lambda m: m.branch(2).comp(1), "node", [4], "comp"),
    ("branch([0,2]).comp(0)", lambda m: m.branch([0, 2]).comp(0), "node", [0, 3], "comp"),
    ("group g", lambda m: m.g, "node", [2, 3], "all"),
    ("channel HH", lambda m: m.HH, "node", [0, 1, 3, 4, 5], "all"),
    ("select([1,3])", lambda m: m.select(nodes=[1, 3]), "node", [1, 3], "row"),
    ("comp('all')", lambda m: m.comp("all"), "node", [0, 1, 2, 3, 4, 5], "comp"),
    ("g.branch(1)", lambda m: m.g.branch(1), "node", [3], "branch"),
    # rows selected in a non-ascending order, then grouped by a child level: sharing groups are not contiguous in the selection
    ("select([0,4,1,5]).branch('all')", lambda m: m.select(nodes=[0, 4, 1, 5]).branch("all"), "node", [0, 1, 4, 5], "branch"),
]
CELL_KEYS = ["radius", "length", "capacitance", "HH_gNa", "v", "HH_m"]
CELL_BRANCH_OF = [0, 0, 1, 2, 2, 2]
CELL_CELL_OF = [0] * 6
CELL_NAN = {"HH_gNa": [2], "HH_m": [2]}

# rows of the net: cell0: b0: 0,1 ; b1: 2 ; cell1: b0: 3,4 ; b1: 5 ; b2: 6.  HH on cell 0 (0,1,2).
# edges: 0 Iono (0 -> 5), 1 Test (4 -> 2), 2 Iono (2 -> 3)
NET_VIEWS = [
    ("cell(0)", lambda m: m.cell(0), "node", [0, 1, 2], "cell"),
    ("cell(1).branch([0,1])", lambda m: m.cell(1).branch([0, 1]), "node", [3, 4, 5], "branch"),
    ("cell(1).branch('all')", lambda m: m.cell(1).branch("all"), "node", [3, 4, 5, 6], "branch"),
    ("cell(0).branch(0).comp(1)", lambda m: m.cell(0).branch(0).comp(1), "node", [1], "comp"),
    ("module", lambda m: m, "node", [0, 1, 2, 3, 4, 5, 6], "all"),
    ("channel HH", lambda m: m.HH, "node", [0, 1, 2], "all"),
    ("IonotropicSynapse", lambda m: m.IonotropicSynapse, "edge", [0, 2], "all"),
    ("IonotropicSynapse.edge(1)", lambda m: m.IonotropicSynapse.edge(1), "edge", [2], "edge"),
    ("IonotropicSynapse.edge('all')", lambda m: m.IonotropicSynapse.edge("all"), "edge", [0, 2], "edge"),
    ("TestSynapse.edge(0)", lambda m: m.TestSynapse.edge(0), "edge", [1], "edge"),
    ("select(edges=[0,2])", lambda m: m.select(edges=[0, 2]), "edge", [0, 2], "row"),
    ("select(edges=[0,1])", lambda m: m.select(edges=[0, 1]), "edge", [0, 1], "row"),
    ("select(nodes=[5,0,3,1]).cell('all')", lambda m: m.select(nodes=[5, 0, 3, 1]).cell("all"), "node", [0, 1, 3, 5], "cell"),
    ("select(edges=[2,0])", lambda m: m.select(edges=[2, 0]), "edge", [2, 0], "row"),
]
NET_KEYS = ["radius", "HH_gK", "v", "IonotropicSynapse_gS", "TestSynapse_gC", "IonotropicSynapse_s"]
NET_BRANCH_OF = [0, 0, 1, 2, 2, 3, 4]
NET_CELL_OF = [0, 0, 0, 1, 1, 1, 1]
NET_NAN = {"HH_gK": [3, 4, 5, 6], "IonotropicSynapse_gS": [1], "IonotropicSynapse_s": [1], "TestSynapse_gC": [0, 2]}
NET_EDGE_TYPE = ["IonotropicSynapse", "TestSynapse", "IonotropicSynapse"]

TABLES = {
    "cell": (CELL_VIEWS, CELL_KEYS, CELL_BRANCH_OF, CELL_CELL_OF, CELL_NAN),
    "net": (NET_VIEWS, NET_KEYS, NET_BRANCH_OF, NET_CELL_OF, NET_NAN),
}
EDGE_KEYS = {"IonotropicSynapse_gS", "TestSynapse_gC", "IonotropicSynapse_s"}
STATE_KEYS = {"v", "HH_m", "IonotropicSynapse_s"}


def ref_groups(modname, vi, key):
    """Reference selection semantics -> list of groups (lists of row labels), in parameter order; None if not applicable."""
    views, keys, branch_of, cell_of, nan = TABLES[modname]
    name, _, kind, rows, share = views[vi]
    if (key in EDGE_KEYS) != (kind == "edge"):
        return None
    rows = [r for r in rows if r not in nan.get(key, [])]
    if not rows:
        return []
    if share == "all":
        return [rows]
    if share in ("comp", "row", "edge"):
        return [[r] for r in rows]
    ident = branch_of if share == "branch" else cell_of
    groups = {}
    for r in rows:
        groups.setdefault(ident[r], []).append(r)
    return [groups[k] for k in sorted(groups)]


def _table_values(m, key):
    if key in EDGE_KEYS:
        return m.edges[key].to_numpy(float)
    return m.nodes[key].to_numpy(float)


def _sim_arrays(m, params=None, param_state=None):
    """Arrays that reach the simulator, in table (row) order, NaN where the key does not exist."""
    from jaxley.integrate import build_init_and_step_fn

    m.to_jax()
    init_fn, _ = build_init_and_step_fn(m)
    states, allp = init_fn(params if params is not None else [], None, param_state, DT)
    out = {}
    for key in set(TABLES["cell"][1]) | set(TABLES["net"][1]):
        src = allp if key in allp else (states if key in states else None)
        if src is None:
            continue
        arr = np.asarray(src[key], float)
        if key in EDGE_KEYS:
            # per-type array in rank order -> scatter back to edge rows
            typ = key.rsplit("_", 1)[0] if not key.endswith("e_syn") else key[: -len("_e_syn")]
            typ = "IonotropicSynapse" if key.startswith("IonotropicSynapse") else "TestSynapse"
            rows = [i for i, t in enumerate(NET_EDGE_TYPE) if t == typ]
            full = np.full(len(NET_EDGE_TYPE), np.nan)
            full[rows] = arr
            arr = full
        out[key] = arr
    return out


def _new_values(hist_pos, groups):
    """Distinct new value per created parameter (pure function of position)."""
    return [0.37 + 0.11 * hist_pos + 0.05 * g for g in range(len(groups))]


def run_history(modname, hist, simulate=False):
    """hist: list of (view index, key)."""
    import jax.numpy as jnp
    import jaxley as jx

    out = {"violations": [], "cover": [], "refusals": [], "digests": [], "evals": 1, "transitions": 0}
    views, keys, branch_of, cell_of, nan = TABLES[modname]
    base = _module(modname)
    m = copy.deepcopy(base)
    wit = {"module": modname, "history": [[int(h[0]), h[1]] + list(h[2:]) for h in hist], "views": [views[h[0]][0] for h in hist]}
    last_row = len(base.nodes) - 1

    def viol(rule, msg, **extra):
        sig = {"rule": rule, "module": modname}
        sig.update(extra)
        out["violations"].append({"sig": sig, "witness": wit, "msg": msg})

    expected = {}
    plan = []
    unequal_outside = False
    inits = []
    for pos, h in enumerate(hist):
        vi, key = h[0], h[1]
        init = h[2] if len(h) > 2 else "none"
        groups = ref_groups(modname, vi, key)
        if groups is None:
            return None
        ng = max(1, len(groups or []))
        zero_ok = key not in ("radius", "length", "capacitance", "axial_resistivity")  # geometry must stay positive
        if init == "zero" and not zero_ok:
            return None
        z = 0.0 if zero_ok else 0.15
        init_val = {"none": None, "zero": 0.0, "float": 0.37, "list": [z if g == 0 else 0.21 * (g + 1) for g in range(ng)]}[init]
        inits.append((init, init_val))
        try:
            view = views[vi][1](m)
            view.make_trainable(key, init_val, verbose=False)
        except Exception as e:
            if not groups:
                out["refusals"].append(f"nothing_to_train:{type(e).__name__}")
                return out
            viol("make_trainable_raised", f"{views[vi][0]}.make_trainable({key}): {type(e).__name__}: {str(e)[:150]}")
            return out
        out["transitions"] += 1
        if not groups:
            viol("make_trainable_accepts_empty_selection", f"{views[vi][0]} / {key}")
            return out
        plan.append((key, groups))
        lens = {len(g) for g in groups}
        if len(lens) > 1:
            inside = any(last_row in g for g in groups) if key not in EDGE_KEYS else True
            if inside:
                out["cover"].append("unequal_groups_last_comp_inside")
            else:
                out["cover"].append("unequal_groups_last_comp_outside")
                unequal_outside = True
        if any(r in nan.get(key, []) for r in views[vi][3]):
            out["cover"].append("nan_rows_skipped")
        if views[vi][2] == "edge" and views[vi][4] == "all":
            out["cover"].append("edge_key_through_type_view")
        if views[vi][0].startswith("select(edges"):
            out["cover"].append("edge_select")
        if views[vi][4] == "all" and len(groups[0]) > 1:
            out["cover"].append("shared_over_group")
        if key in STATE_KEYS:
            out["cover"].append("state_key")
    # created parameters: count, initial values = group means
    params_as_returned = False
    params = m.get_parameters()
    if len(params) != len(plan):
        viol("parameter_list_length", f"{len(params)} vs {len(plan)}")
        return out
    new_params = []
    for pos, ((key, groups), p) in enumerate(zip(plan, params)):
        got = np.asarray(list(p.values())[0], float)
        if list(p.keys()) != [key] or got.shape != (len(groups),):
            viol("created_parameters", f"{pos}: keys {list(p.keys())} shape {got.shape}, expected {key} x {len(groups)}", unequal_outside=unequal_outside)
            return out
        tab = _table_values(base, key)
        means = np.asarray([np.mean(tab[g]) for g in groups])
        init, init_val = inits[pos]
        if init == "none":
            want0 = means
        elif init == "list":
            want0 = np.asarray(init_val, float)
        else:
            want0 = np.full(len(groups), float(init_val))
        if not np.allclose(got, want0, rtol=1e-6, atol=1e-12):  # float32 default arrays in make_trainable
            viol("initial_value_of_trainable", f"{key} (init_val {init}): {got} vs {want0}", init=init)
        else:
            out["cover"].append("initial_value_is_group_mean" if init == "none" else f"init_val:{init}")
        if init == "none":
            nv = _new_values(pos, groups)
            vals_new = [means[g] * (1.0 + 0.2 * x) if key != "v" else means[g] + 5.0 * x for g, x in enumerate(nv)]
            new_params.append({key: jnp.asarray(vals_new)})
        else:
            # the values the user asked for are the ones that must be simulated (params straight from get_parameters())
            new_params.append({key: jnp.asarray(want0)})
            params_as_returned = True
    # expected arrays: table values overwritten in call order
    touched = {}
    for (key, groups), p in zip(plan, new_params):
        exp = expected.setdefault(key, _table_values(base, key).copy())
        pv = np.asarray(list(p.values())[0], float)
        for g, rows in enumerate(groups):
            for r in rows:
                if r in touched.setdefault(key, set()):
                    out["cover"].append("overlapping_trainables")
                touched[key].add(r)
                exp[r] = pv[g]
    if params_as_returned and len(hist) == 1:
        new_params_used = [dict(p) for p in params]  # exactly what get_parameters() returned
    else:
        new_params_used = new_params
    try:
        got_arrays = _sim_arrays(m, params=new_params_used)
    except Exception as e:
        viol("init_fn_raised", f"{type(e).__name__}: {str(e)[:200]}")
        return out
    base_arrays = _sim_arrays(copy.deepcopy(base))
    for key, arr in got_arrays.items():
        want = expected.get(key, base_arrays[key])
        ok = np.isnan(want) | (np.abs(arr - want) <= 1e-9 * (1 + np.abs(want)))
        if key not in expected:
            ok = np.isnan(want) & np.isnan(arr) | (arr == want)
        if not np.all(ok):
            bad = np.where(~ok)[0].tolist()
            sel = sorted(touched.get(key, []))
            outside = [b for b in bad if b not in sel]
            viol("row_outside_selection_changed" if outside else "selected_rows_wrong_value",
                 f"{key}: rows {bad} got {arr[bad].tolist()} want {np.asarray(want)[bad].tolist()} (selected {sel})",
                 unequal_outside=unequal_outside, key_kind="edge" if key in EDGE_KEYS else "node")
    out["digests"].append(digest([modname, [list(h) for h in hist]]))
    state_key = digest([[k, g] for k, g in plan])
    out["state_hash"] = modname + ":" + state_key

    if simulate and not out["violations"]:
        # three routes to the same model
        try:
            r_train = np.asarray(jx.integrate(m, params=new_params_used, delta_t=DT))
            m_set = copy.deepcopy(base)
            ps = None
            m_ds = copy.deepcopy(base)
            for (key, groups), p in zip(plan, new_params):
                pv = np.asarray(list(p.values())[0], float)
                for g, rows in enumerate(groups):
                    sel = dict(edges=rows) if key in EDGE_KEYS else dict(nodes=rows)
                    m_set.select(**sel).set(key, float(pv[g]))
                    ps = m_ds.select(**sel).data_set(key, float(pv[g]), ps)
            r_set = np.asarray(jx.integrate(m_set, delta_t=DT))
            ps_before = copy.deepcopy(ps)
            r_ds = np.asarray(jx.integrate(m_ds, param_state=ps, delta_t=DT))
            # the caller's param_state is an input: integrate must not rewrite it, and passing the same object again (and the same
            # params again) must give the same result
            r_ds2 = np.asarray(jx.integrate(m_ds, param_state=ps, delta_t=DT))
            r_train2 = np.asarray(jx.integrate(m, params=new_params_used, delta_t=DT))
            out["cover"].append("param_state_object_reused")
            same_ps = len(ps) == len(ps_before) and all(
                a["key"] == b["key"] and np.array_equal(np.asarray(a["val"]), np.asarray(b["val"])) and np.array_equal(np.asarray(a["indices"]), np.asarray(b["indices"]))
                for a, b in zip(ps, ps_before))
            if not same_ps:
                viol("integrate_rewrites_callers_param_state", f"param_state after integrate: {[(d['key'], np.asarray(d['indices']).tolist()) for d in ps]} "
                     f"before: {[(d['key'], np.asarray(d['indices']).tolist()) for d in ps_before]}")
            elif not np.array_equal(r_ds2, r_ds, equal_nan=True):
                viol("same_param_state_twice_differs", f"max diff {float(np.max(np.abs(r_ds2 - r_ds)))}")
            if not np.array_equal(r_train2, r_train, equal_nan=True):
                viol("same_params_twice_differs", f"max diff {float(np.max(np.abs(r_train2 - r_train)))}")
            e1 = float(np.max(np.abs(r_train - r_set) / (1 + np.abs(r_set))))
            e2 = float(np.max(np.abs(r_ds - r_set) / (1 + np.abs(r_set))))
            out["cover"].append("set_eq_data_set_eq_trainable")
            if not (e1 <= TOL):
                viol("trainable_ne_set", f"rel diff {e1}", unequal_outside=unequal_outside)
            if not (e2 <= TOL):
                viol("data_set_ne_set", f"rel diff {e2}")
            # data_set through the ORIGINAL view (which may contain rows where the key does not exist): only existing rows change
            if len(plan) == 1 and len(plan[0][1]) == 1:
                vi0, key0 = hist[0][0], hist[0][1]
                m_v = copy.deepcopy(base)
                val0 = float(np.asarray(list(new_params_used[0].values())[0])[0])
                ps_v = views[vi0][1](m_v).data_set(key0, val0, None)
                arr_v = _sim_arrays(m_v, param_state=ps_v)
                for key, arr in arr_v.items():
                    want = expected.get(key, base_arrays[key])
                    ok = (np.isnan(want) & np.isnan(arr)) | (np.abs(arr - want) <= 1e-9 * (1 + np.abs(want)))
                    if not np.all(ok):
                        bad = np.where(~ok)[0].tolist()
                        viol("data_set_through_view_touches_other_rows", f"{key}: rows {bad} got {arr[bad].tolist()} want {np.asarray(want)[bad].tolist()}",
                             nan_rows=bool(np.isnan(np.asarray(want)[bad]).any()))
                out["cover"].append("data_set_through_original_view")
            # write_trainables writes exactly the simulated values -- also when the tables were edited after the last
            # simulation: rows outside the trainable selection get a fresh set() here and must keep it
            edited = {}
            for key in expected:
                outside = [r for r in range(len(expected[key])) if r not in touched.get(key, set()) and not np.isnan(expected[key][r])]
                if outside:
                    r0 = outside[-1]
                    newv = float(expected[key][r0]) * 1.5 + (3.0 if key == "v" else 0.0)
                    sel = dict(edges=[r0]) if key in EDGE_KEYS else dict(nodes=[r0])
                    m.select(**sel).set(key, newv)
                    expected[key] = expected[key].copy()
                    expected[key][r0] = newv
                    edited[key] = r0
                    out["cover"].append("set_between_simulation_and_write_trainables")
            m.write_trainables(new_params_used)
            out["cover"].append("write_trainables")
            for key in expected:
                tab = _table_values(m, key)
                want = expected[key]
                ok = (np.isnan(want) & np.isnan(tab)) | (np.abs(tab - want) <= 1e-6 * (1 + np.abs(want)))
                if not np.all(ok):
                    bad = np.where(~ok)[0].tolist()
                    viol("write_trainables_values", f"{key}: rows {bad} table {tab[bad].tolist()} want {want[bad].tolist()}", unequal_outside=unequal_outside)
        except Exception as e:
            viol("simulation_route_raised", f"{type(e).__name__}: {str(e)[:200]}")
    return out


def ds_chain(modname):
    """Chained data_set calls on ONE key with overlapping rows (broad view first, narrower view second): the later call overrides the
    earlier one on the rows they share, exactly as the same two set() calls do.  Judged on the arrays that reach the simulator."""
    out = {"violations": [], "cover": [], "refusals": [], "digests": [], "evals": 0, "transitions": 0}
    base = _module(modname)
    views, keys, *_ = TABLES[modname]
    if modname == "cell":
        cases = [("radius", 0, 1), ("radius", 3, 5), ("HH_gNa", 8, 1), ("v", 0, 4), ("capacitance", 10, 6)]
    else:
        cases = [("radius", 4, 0), ("radius", 0, 3), ("IonotropicSynapse_gS", 6, 7), ("IonotropicSynapse_s", 8, 7), ("v", 4, 2)]
    for key, vb, vn in cases:
        wit = {"part": "ds_chain", "module": modname, "key": key, "broad": views[vb][0], "narrow": views[vn][0]}
        m_ds, m_set = copy.deepcopy(base), copy.deepcopy(base)
        v1, v2 = (0.37, 0.81) if key not in ("v",) else (-66.0, -58.5)
        try:
            ps = views[vb][1](m_ds).data_set(key, v1, None)
            ps = views[vn][1](m_ds).data_set(key, v2, ps)
            views[vb][1](m_set).set(key, v1)
            views[vn][1](m_set).set(key, v2)
        except Exception as e:
            out["refusals"].append(f"ds_chain:{key}:{type(e).__name__}")
            continue
        out["evals"] += 1
        got = _sim_arrays(m_ds, param_state=ps).get(key)
        want = _sim_arrays(m_set).get(key)
        out["cover"].append("chained_data_set_overlapping_rows")
        if got is None or want is None or not np.array_equal(np.asarray(got), np.asarray(want), equal_nan=True):
            out["violations"].append({"sig": {"rule": "chained_data_set_ne_chained_set", "module": modname, "key_kind": "edge" if key in EDGE_KEYS else "node"},
                                      "witness": wit, "msg": f"{key}: data_set through {views[vb][0]} then {views[vn][0]} reaches the simulator as "
                                                             f"{None if got is None else np.asarray(got).tolist()}, the same two set() calls as {None if want is None else np.asarray(want).tolist()}"})
        out["digests"].append(digest(["ds_chain", modname, key, vb, vn]))
    return out


def work(item):
    if item.get("part") == "ds_chain":
        return ds_chain(item["module"])
    res = {"violations": [], "cover": [], "refusals": [], "digests": [], "evals": 0, "transitions": 0, "state_hashes": []}
    from vf import env

    for h in item["hists"]:
        env.maybe_clear_caches(20000)
        r = run_history(item["module"], [tuple(x) for x in h], simulate=item["simulate"])
        if r is None:
            continue
        for k in ("violations", "cover", "refusals", "digests"):
            res[k] += r[k]
        res["evals"] += r["evals"]
        res["transitions"] += r["transitions"]
        if "state_hash" in r:
            res["state_hashes"].append(r["state_hash"])
    res["sample"] = {"module": item["module"], "history": item["hists"][0]}
    return res


def _singles(modname):
    views, keys, *_ = TABLES[modname]
    return [(vi, k) for vi in range(len(views)) for k in keys if ref_groups(modname, vi, k) is not None]


QUICK_PAIR_VIEWS = {"cell": [0, 2, 3, 5, 7, 9, 12], "net": [0, 1, 4, 6, 7, 10, 12, 13]}


def explore(ctx):
    items = []
    n_h = 0
    quick = ctx.tier == "quick"
    for modname in ("cell", "net"):
        singles = [s for s in _singles(modname)]
        for i in range(0, len(singles), 2):
            items.append({"module": modname, "simulate": True, "hists": [[list(s)] for s in singles[i:i + 2]]})
        n_h += len(singles)
        # explicit initial values (float, exactly zero, list with a zero): quick on a view subset, thorough on all
        iv = [s for s in singles if ref_groups(modname, *s) and (not quick or s[0] in QUICK_PAIR_VIEWS[modname])]
        ivh = [[list(s) + [init]] for s in iv for init in ("zero", "float", "list")]
        n_h += len(ivh)
        for i in range(0, len(ivh), 6):
            # array-level check for all; the three-route simulation only for the first chunk (quick) / all (thorough)
            items.append({"module": modname, "simulate": (not quick) or i == 0, "hists": ivh[i:i + 6]})
        good = [s for s in singles if ref_groups(modname, *s)]
        if quick:
            sub = [s for s in good if s[0] in QUICK_PAIR_VIEWS[modname]]
            # pairs on the same key (override semantics) and pairs of different keys through the unequal-group views
            pairs = [[list(a), list(b)] for a in sub for b in sub if a[1] == b[1] or (a[0] in (1, 2) and b[0] in (1, 2))]
        else:
            pairs = [[list(a), list(b)] for a in good for b in good]
        n_h += len(pairs)
        for i in range(0, len(pairs), 12):
            items.append({"module": modname, "simulate": False, "hists": pairs[i:i + 12]})
        if not quick and modname == "cell":
            sub = [s for s in good if s[1] in ("radius", "HH_gNa", "v") and s[0] in QUICK_PAIR_VIEWS[modname]]
            triples = [[list(a), list(b), list(c)] for a in sub for b in sub for c in sub]
            n_h += len(triples)
            for i in range(0, len(triples), 40):
                items.append({"module": modname, "simulate": False, "hists": triples[i:i + 40]})
    items += [{"part": "ds_chain", "module": "cell"}, {"part": "ds_chain", "module": "net"}]
    ctx.note("histories", n_h)
    res = ctx.map("work", items)
    hashes = set()
    for _, r in res:
        for h in (r or {}).get("state_hashes", []):
            hashes.add(h)
    ctx.states = len(hashes)


def replay(w):
    if w.get("part") == "ds_chain":
        return [v for v in ds_chain(w["module"])["violations"] if v["witness"]["key"] == w["key"] and v["witness"]["broad"] == w["broad"]]
    r = run_history(w["module"], [tuple(x) for x in w["history"]], simulate=True)
    return r["violations"] if r else []
