"""C20 — connectivity builders create exactly the requested connections.

Model checking by exhaustive enumeration of environment answers: the only nondeterminism of
`fully_connect`, `sparse_connect` and `connectivity_matrix_connect` is the random number
generator.  `vf.choices.Oracle` replaces it by choice points and `vf.choices.explore` re-runs the
*real* builder once per path through the tree of answers (stateless DFS).  The property is checked
on the edge table of every leaf.  Nothing is sampled.
"""
from __future__ import annotations

import itertools
import math
import pickle
from collections import Counter

import numpy as np

from vf import build, choices
from vf.runner import digest

ID = "C20"
LEVEL = "model_checking"
RULE = (
    "scenario = (network of 3-5 cells with different compartment counts, edges already present, synapse type, "
    "builder, pre population, post population, how the population view is made, p / boolean matrix); all scenarios of "
    "the tier are enumerated (all boolean matrices up to 3x3, p in {0,0.5,1}, every answer of the binomial draw). "
    "For each scenario the tree of RNG answers (np.random.binomial, np.random.choice, pandas group sample -> choice "
    "points) is explored by stateless DFS with the real builder, completely when the tree has at most the tier's cap "
    "of leaves, otherwise every path with at most max_dev non-default answers (2, or 1 / 0 where the notes say so) "
    "around each default policy (first / last / cycle through the domain). state = canonical edge table after the "
    "call (distinct digests), transition = one real builder execution. An outcome is non-trivial if the call "
    "returned and its edge table digest is new"
)
REQUIRED_COVER = [
    "n_pre_ne_n_post",
    "fully:n_pre_ne_n_post",
    "n_pre_eq_n_post",
    "exactly_one_draw",
    "zero_draws",
    "several_draws",
    "same_pair_drawn_twice",
    "all_false_matrix",
    "all_true_matrix",
    "overlapping_populations",
    "disjoint_populations",
    "identical_populations",
    "existing_edges_before_call",
    "new_synapse_type_gets_type_ind_1",
    "post_cell_with_several_comps",
    "post_site_not_first_comp_of_cell",
    "pre_cell_with_several_comps",
    "population_given_in_unsorted_order",
    "select_view_population",
    "synapse:IonotropicSynapse",
    "synapse:TestSynapse",
    "p=0",
    "p=0.5",
    "p=1",
    "complete_tree",
    "deviation_bounded_tree",
    "proxy_faithful_to_real_rng",
    "oracle_forwards_every_owned_draw_like_numpy",
]
ASSUMPTIONS = [
    "the RNG is the only nondeterminism of the three builders; this is asserted, not assumed: numpy's global generator "
    "state is compared before/after every intercepted call and a forwarding oracle reproduces un-intercepted runs",
    "a vector draw choice(arr, size=k) is k independent scalar choices (arr^k); Binomial(n,p) has support {0} for p=0, "
    "{n} for p=1 and {0..n} otherwise; probabilities play no role (every outcome of positive probability is an outcome)",
    "p strictly between 0 and 1 only selects the support, so p=0.5 stands for all of (0,1)",
    "rows/columns of the connectivity matrix refer to the cells of the population in the order in which the view lists "
    "them: ascending for net.cell(list) (whatever the order of the list), as given for net.select(nodes=...)",
    "'post site equals the compartment the oracle chose' is read as equality of multisets (which draw serves which pair "
    "is not prescribed); the multiset of (pre cell, post cell) pairs is compared exactly",
    "that rule (and the planner's leaf counts) rest on a model of which draws the builders make; a builder that draws "
    "differently (e.g. branch first, then a uniform location) is not an error: the rule is skipped, the coverage predicate "
    "draw_model_mismatch is recorded, the real tree of draws is explored model-free (complete up to the cap, deviation-bounded "
    "beyond) and all other rules are applied. Continuous draws are explored on the quantile grid {0, .25, .5, .75, 1-2^-53}, "
    "integer ranges above 16 values on both ends, their neighbours and the middle, permutations above 4 elements on the "
    "identity and the single transpositions",
    "sparse_connect: the intended cells of a connection are the (pre, post) cells that were drawn for it (checked when the "
    "cell-level draws binomial / pre cells / post cells are recognisable)",
    "sparse_connect: the property only asks for pairs inside pre x post and for success; additionally the number of "
    "new synapses must equal the binomial answer",
    "self connections (a cell in both populations) are pairs like any other",
    "population sizes above 3, networks above 5 cells and trees above the cap are covered only inside the deviation bound",
    "pickle round trip of the base network is behaviour-preserving (C18); the forwarding self test builds its reference "
    "network freshly",
]

# ------------------------------------------------------------------------------------------ scope
# cells as (parents, ncomp per branch); compartments per cell differ inside each network
NETS = {
    "A": [([-1], [1]), ([-1, 0], [2, 1]), ([-1, 0], [1, 3]), ([-1], [2])],  # comps per cell 1,3,4,2
    "B": [([-1], [2]), ([-1], [1]), ([-1, 0], [1, 3]), ([-1, 0], [2, 1]), ([-1], [1])],  # 2,1,4,3,1
    "C": [([-1, 0], [1, 2]), ([-1], [1]), ([-1], [2])],  # 3,1,2
    # a dozen (mostly one-compartment) cells: cell indices beyond 8 and populations that straddle 8, where the iteration order of hash
    # containers of small ints stops being ascending (seeded change S94); the RNG trees stay small because most cells offer one choice
    "D": [([-1], [1]), ([-1], [1]), ([-1], [2]), ([-1], [1]), ([-1], [1]), ([-1], [1]), ([-1], [1]), ([-1], [2]), ([-1], [1]), ([-1], [1]),
          ([-1], [1]), ([-1], [1])],
}
WIDE = [([0, 1, 2, 3], [6, 7, 8, 9]), ([10, 3], [7, 8]), ([1], [2, 9, 11]), ([9, 8, 7], [11, 0, 8])]


def _wide_matrices(npre, npost):
    """A few structured matrices (not all 2^(npre*npost)): cyclic shift, identity-like, full, one off-diagonal entry."""
    out = []
    cyc = [[int((j - i) % npost == 1 % npost) for j in range(npost)] for i in range(npre)]
    ident = [[int(i == j) for j in range(npost)] for i in range(npre)]
    full = [[1] * npost for _ in range(npre)]
    one = [[int(i == npre - 1 and j == 0) for j in range(npost)] for i in range(npre)]
    anti = [[int(i + j == npost - 1) for j in range(npost)] for i in range(npre)]
    for m in (cyc, ident, full, one, anti):
        flat = [x for row in m for x in row]
        if flat not in out:
            out.append(flat)
    return out
SYNS = ["IonotropicSynapse", "TestSynapse"]
# edges that exist before the call: (pre cell, post cell, "same"/"other" synapse type than the call's), made with jx.connect
PRIORS = {
    "none": [],
    "same": [(0, 1, "same"), (2, 0, "same")],
    "other": [(1, 2, "other")],
    "mixed": [(1, 2, "other"), (0, 1, "same"), (2, 1, "other")],
}
PS = [0.0, 0.5, 1.0]

# population pairs (pre, post); orders are deliberately not ascending (used as given by the select view)
CORE = {
    "A": [
        ([0], [1]),
        ([1], [1]),
        ([0], [3, 1]),
        ([3, 1], [2]),
        ([2], [3, 0, 1]),
        ([3, 0, 1], [2]),
        ([1, 0], [3, 2]),
        ([0, 1], [3, 1]),
        ([3, 0], [0, 3]),
        ([0, 3], [1, 0, 3]),
        ([2, 3, 1], [3, 0]),
        ([1, 0, 3], [0, 3, 1]),
        ([0, 1, 2], [3, 2, 1]),
    ],
    "B": [
        ([4], [0]),
        ([1, 0], [2, 3, 4]),
        ([2, 3, 4], [1, 0]),
        ([0, 4], [4, 1]),
        ([3, 0, 2], [1, 4, 0]),
        ([4, 1], [3]),
    ],
    "C": [
        ([0], [2, 1]),
        ([2, 0], [1]),
        ([1, 2], [0, 2]),
        ([2, 1, 0], [0, 1, 2]),
        ([0, 1], [2, 0, 1]),
    ],
}
# population pairs per matrix shape (all boolean matrices of that shape are enumerated on each of them)
MATRIX_POPS = {
    "quick": [
        ("A", [0], [1]),
        ("A", [0], [3, 1]),
        ("A", [3, 1], [2]),
        ("A", [2], [3, 0, 1]),
        ("A", [3, 0, 1], [2]),
        ("A", [0, 1], [3, 1]),
        ("A", [0, 3], [1, 0, 3]),
        ("A", [2, 3, 1], [3, 0]),
        ("B", [3, 0, 2], [1, 4, 0]),
    ],
    "thorough": [
        ("A", [1, 0], [3, 2]),
        ("A", [1], [1]),
        ("A", [3, 0], [0, 3]),
        ("B", [1, 0], [2, 3, 4]),
        ("B", [2, 3, 4], [1, 0]),
        ("A", [1, 0, 3], [0, 3, 1]),
        ("C", [2, 1, 0], [0, 1, 2]),
    ],
}

TIER = {
    # cap_complete: trees up to this many leaves are enumerated completely (per builder)
    # cap_dev2: a deviation-bounded job allows <=2 deviations if its estimated number of runs per policy is at most
    #           this, otherwise <=1
    # policies: default-answer policies around which the deviation-bounded jobs explore (per builder)
    # item: target cost of a work item in seconds (cost model: COST)
    "quick": {
        "cap_complete": {"fully": 100, "sparse": 50},
        "cap_dev2": {"fully": 100, "sparse": 40},
        "policies": {"fully": ["first", "cycle"], "sparse": ["cycle"]},
        # matrices: (shape size r*c up to, cap_complete, max_dev beyond the cap, policies)
        "matrix_rule": [(4, 100, 2, ["first", "last"]), (6, 8, 1, ["first"]), (9, 1, 0, ["cycle"]), (16, 64, 1, ["first", "cycle"])],
        "p1_defaults_only_from": 6,
        "item": 6.0,
        "forward_seeds": [0, 1],
    },
    "thorough": {
        "cap_complete": {"fully": 600, "sparse": 300},
        "cap_dev2": {"fully": 400, "sparse": 60},
        "policies": {"fully": ["first", "last", "cycle"], "sparse": ["first", "cycle"]},
        "matrix_rule": [(4, 2000, 2, ["first", "last", "cycle"]), (6, 600, 2, ["first", "last", "cycle"]),
                        (9, 8, 1, ["cycle"]), (16, 256, 1, ["first", "cycle"])],
        "p1_defaults_only_from": 99,
        "item": 30.0,
        "forward_seeds": [0, 1, 2, 3, 4, 5],
    },
}


def cost_of(scn, root):
    """Seconds per execution (measured: one jaxley View construction is ~20 ms, two per drawn connection)."""
    if scn["call"] == "fully":
        return 0.07
    if scn["call"] == "matrix":
        return 0.065 + 0.02 * sum(scn["matrix"])
    k = binom_domain(len(scn["pre"]) * len(scn["post"]), scn["p"])[root[0]] if root else 0
    return 0.03 + 0.021 * k


# ------------------------------------------------------------------------------------------ tables
class Tabs:
    """Index tables derived from the plain description (not from jaxley)."""

    def __init__(self, net_id):
        self.cells = NETS[net_id]
        self.comps = []  # global comp -> (cell, local branch, local comp, ncomp of branch)
        self.off = [0]
        for c, (parents, ncomps) in enumerate(self.cells):
            for bi, n in enumerate(ncomps):
                for k in range(n):
                    self.comps.append((c, bi, k, n))
            self.off.append(len(self.comps))
        self.ncomp = [self.off[c + 1] - self.off[c] for c in range(len(self.cells))]

    def cell_of(self, g):
        return self.comps[int(g)][0]

    def loc_of(self, g):
        _, _, k, n = self.comps[int(g)]
        return (0.5 + k) / n

    def first_comp(self, c):
        return self.off[c]


_TABS = {}


def tabs(net_id) -> Tabs:
    if net_id not in _TABS:
        _TABS[net_id] = Tabs(net_id)
    return _TABS[net_id]


def other_syn(name):
    return SYNS[1 - SYNS.index(name)]


def syn_obj(name):
    import jaxley.synapses as S

    return getattr(S, name)()


def order_of(cells, view):
    """Order in which the view lists the cells of the population."""
    return sorted(cells) if view == "cell" else list(cells)


# ------------------------------------------------------------------------------------------ base networks
_BASE = {}


def build_base(net_id, prior, syn):
    J = build.jx()
    net = J.Network([build.cell_of(p, n) for p, n in NETS[net_id]])
    for a, b, which in PRIORS[prior]:
        s = syn if which == "same" else other_syn(syn)
        J.connect(net.cell(a).branch(0).comp(0), net.cell(b).branch(0).comp(0), syn_obj(s))
    return net


def base_bytes(net_id, prior, syn):
    key = (net_id, prior, syn)
    if key not in _BASE:
        net = build_base(net_id, prior, syn)
        T = tabs(net_id)
        nodes = net.nodes
        mine = [(c, sum(len(n) for _, n in NETS[net_id][:c]) + b) for c, b, _, _ in T.comps]
        theirs = list(zip(nodes["global_cell_index"].tolist(), nodes["global_branch_index"].tolist()))
        if nodes["global_comp_index"].tolist() != list(range(len(T.comps))) or theirs != mine or list(nodes.index) != list(range(len(T.comps))):
            raise choices.HarnessError(f"compartment layout of network {net_id} is not the one the check's tables assume")
        if len(net.edges) != len(PRIORS[prior]):
            raise choices.HarnessError("prior edges were not created")
        _BASE[key] = pickle.dumps(net)
    return _BASE[key]


def prior_types(prior, syn):
    return [syn if w == "same" else other_syn(syn) for _, _, w in PRIORS[prior]]


# ------------------------------------------------------------------------------------------ execution
def make_view(net, cells, view, T):
    if view == "cell":
        return net.cell(list(cells))
    nodes = [g for c in cells for g in range(T.off[c], T.off[c + 1])]
    return net.select(nodes=nodes)


def _val(x):
    if isinstance(x, (np.generic,)):
        x = x.item()
    if isinstance(x, float) and math.isnan(x):
        return None
    return x


def canon_edges(net):
    df = net.edges
    cols = list(df.columns)
    rows = [{c: _val(r[i]) for i, c in enumerate(cols)} for r in df.itertuples(index=False, name=None)]
    return {"index": [int(i) if isinstance(i, (int, np.integer)) else repr(i) for i in df.index], "rows": rows}


def _same_state(a, b):
    return a[0] == b[0] and a[2:] == b[2:] and bool(np.array_equal(a[1], b[1]))


def call_builder(net, scn, T, syn):
    import importlib

    jc = importlib.import_module("jaxley.connect")  # `jaxley.connect` the attribute is the function connect()
    pre = make_view(net, scn["pre"], scn["view"], T)
    post = make_view(net, scn["post"], scn["view"], T)
    if scn["call"] == "fully":
        jc.fully_connect(pre, post, syn)
    elif scn["call"] == "sparse":
        jc.sparse_connect(pre, post, syn, scn["p"])
    elif scn["call"] == "matrix":
        mat = np.asarray(scn["matrix"], dtype=bool).reshape(len(scn["pre"]), len(scn["post"]))
        if scn.get("layout") == "F":
            mat = np.asfortranarray(mat)  # same entries, column-major memory (what `W.T > 0` or a transposed view hands over)
        elif scn.get("layout") == "T":
            mat = np.ascontiguousarray(mat.T).T  # a transposed view of a C-ordered (post x pre) array
        jc.connectivity_matrix_connect(pre, post, syn, mat)
    else:
        raise ValueError(scn["call"])


def execute(scn, oracle, net=None):
    """One real builder execution under the oracle. Returns (net, edges before, exception or None)."""
    T = tabs(scn["net"])
    if net is None:
        net = pickle.loads(base_bytes(scn["net"], scn["prior"], scn["syn"]))
    before = canon_edges(net)
    syn = syn_obj(scn["syn"])
    st = np.random.get_state()
    exc = None
    try:
        with oracle.installed():
            call_builder(net, scn, T, syn)
    except choices.HarnessError:
        raise
    except Exception as e:  # jaxley's own failure: classified by the caller
        exc = e
    if choices.installed_anywhere():
        raise choices.HarnessError("interception still installed after the call")
    if not _same_state(st, np.random.get_state()):
        raise choices.HarnessError("numpy's global generator advanced during an intercepted call: a draw is not owned by the oracle")
    return net, before, exc


# ------------------------------------------------------------------------------------------ property oracle
def shape_class(scn, trace):
    if scn["call"] == "fully":
        return "n_pre!=n_post" if len(scn["pre"]) != len(scn["post"]) else "n_pre==n_post"
    if scn["call"] == "matrix":
        return "all_false" if not any(scn["matrix"]) else "some_true"
    if not trace or not trace[0].label.startswith("binomial("):
        return "no_binomial_draw"
    k = trace[0].value
    return "draws=0" if k == 0 else ("draws=1" if k == 1 else "draws>=2")


class ModelMismatch(Exception):
    """The draws made by the builder do not have the structure the check models (which draw is for which cell).
    Not an error: the builder may legitimately draw differently; only the rule that needs the model is skipped."""


def sparse_picks(scn, oracle):
    """(k, [(pre cell, post cell) per drawn connection]) from the cell-level draws of sparse_connect:
    binomial over n_pre*n_post trials, then k pre cells and k post cells out of the given populations."""
    calls = oracle.calls
    n_pre, n_post = len(scn["pre"]), len(scn["post"])
    if not calls or calls[0]["fn"] != "binomial" or calls[0]["n"] != n_pre * n_post:
        raise ModelMismatch(f"sparse_connect does not start with binomial({n_pre * n_post}, p): {calls[:1]}")
    k = calls[0]["value"]
    if len(calls) < 3 or any(c["fn"] != "choice" for c in calls[1:3]):
        raise ModelMismatch("sparse_connect: the binomial draw is not followed by two choice draws")
    if sorted(calls[1]["domain"]) != sorted(scn["pre"]) or sorted(calls[2]["domain"]) != sorted(scn["post"]):
        raise ModelMismatch("sparse_connect cell draws are not over the given populations")
    if len(calls[1]["positions"]) != k or len(calls[2]["positions"]) != k:
        raise ModelMismatch("sparse_connect cell draws do not have size k")
    picks = list(zip([calls[1]["domain"][i] for i in calls[1]["positions"]], [calls[2]["domain"][i] for i in calls[2]["positions"]]))
    return k, picks


def chosen_comps(scn, oracle, T):
    """Global compartment indices the oracle handed out as postsynaptic sites (multiset), from the modelled
    draw structure of the builder. Raises ModelMismatch if the draws do not have that structure."""
    calls = oracle.calls
    n_pre, n_post = len(scn["pre"]), len(scn["post"])
    out = []

    def comps_of(c):
        return list(range(T.off[c], T.off[c + 1]))

    if scn["call"] == "fully":
        post_sorted = sorted(scn["post"])
        if len(calls) != n_post or any(c["fn"] != "pandas.sample" for c in calls):
            raise ModelMismatch(f"fully_connect draw structure not as modelled: {[c['fn'] for c in calls]}")
        for c, call in zip(post_sorted, calls):
            if call["obj_len"] != T.ncomp[c] or call["size"] != n_pre:
                raise ModelMismatch(f"fully_connect group sample not as modelled: {call} for cell {c}")
            out += [T.off[c] + p for p in call["positions"]]
        return out
    if scn["call"] == "matrix":
        m = np.asarray(scn["matrix"], dtype=bool).reshape(n_pre, n_post)
        qo = order_of(scn["post"], scn["view"])
        want = [qo[j] for i in range(n_pre) for j in range(n_post) if m[i, j]]
        if len(calls) != len(want) or any(c["fn"] != "choice" or len(c["positions"]) != 1 for c in calls):
            raise ModelMismatch(f"connectivity_matrix_connect draw structure not as modelled: {[c['fn'] for c in calls]}")
        for c, call in zip(want, calls):
            if list(call["domain"]) != comps_of(c):
                raise ModelMismatch(f"connectivity_matrix_connect draws from {call['domain']}, modelled: compartments of cell {c}")
        return [c["domain"][c["positions"][0]] for c in calls]
    k, picks = sparse_picks(scn, oracle)
    if len(calls) != 3 + k or any(c["fn"] != "choice" or len(c["positions"]) != 1 for c in calls[3:]):
        raise ModelMismatch(f"sparse_connect draw structure not as modelled: {[c['fn'] for c in calls]}")
    cells = []
    for call in calls[3:]:
        dom = list(call["domain"])
        c = T.cell_of(dom[0]) if dom and 0 <= dom[0] < len(T.comps) else None
        if c is None or dom != comps_of(c):
            raise ModelMismatch(f"sparse_connect draws a compartment from {dom}, which is not the compartments of one cell")
        cells.append(c)
        out.append(dom[call["positions"][0]])
    if sorted(cells) != sorted(q for _, q in picks):
        raise ModelMismatch("sparse_connect compartment draws are not for the drawn post cells")
    return out


def check_outcome(scn, oracle, net, before, exc):
    """Returns (list of (rule, msg, extra sig), cover list, state digest or None)."""
    T = tabs(scn["net"])
    fails, cover = [], []
    trace = oracle.trace
    n_pre, n_post = len(scn["pre"]), len(scn["post"])
    k = None
    if scn["call"] == "sparse" and trace and trace[0].label.startswith("binomial("):
        k = trace[0].value
        cover.append("zero_draws" if k == 0 else ("exactly_one_draw" if k == 1 else "several_draws"))
    if scn["call"] == "matrix":
        if not any(scn["matrix"]):
            cover.append("all_false_matrix")
        if all(scn["matrix"]):
            cover.append("all_true_matrix")
    if exc is not None:
        fails.append(("no_exception", f"{type(exc).__name__}: {str(exc)[:160]}", {"exc": type(exc).__name__}))
        return fails, cover, None

    after = canon_edges(net)
    nb = len(before["rows"])
    rows = after["rows"]
    new = rows[nb:]
    # model of the draws: needed only for 'post site is the compartment that was drawn' (and, for sparse_connect,
    # 'the pair is the drawn pair'); a builder that draws differently is judged by all the other rules
    comps, picks = None, None
    try:
        comps = chosen_comps(scn, oracle, T)
    except ModelMismatch:
        cover.append("draw_model_mismatch")
    if scn["call"] == "sparse":
        try:
            _, picks = sparse_picks(scn, oracle)
        except ModelMismatch:
            picks = None

    # --- table well-formed
    if after["index"] != list(range(len(rows))) or [r.get("global_edge_index") for r in rows] != list(range(len(rows))):
        fails.append(("edge_index_contiguous", f"index={after['index']} global_edge_index={[r.get('global_edge_index') for r in rows]}", {}))
    for i, old in enumerate(before["rows"]):
        if i >= len(rows) or any(rows[i].get(c) != v for c, v in old.items()):
            fails.append(("existing_edges_preserved", f"row {i}: {old} -> {rows[i] if i < len(rows) else None}", {}))
            break

    # --- request
    pre_set, post_set = set(scn["pre"]), set(scn["post"])
    try:
        got_pairs = [(T.cell_of(r["pre_global_comp_index"]), T.cell_of(r["post_global_comp_index"])) for r in new]
    except Exception as e:
        fails.append(("edge_rows_readable", f"{type(e).__name__}: {e}", {}))
        return fails, cover, None
    got = Counter(got_pairs)
    if scn["call"] == "fully":
        want = Counter((a, b) for a in scn["pre"] for b in scn["post"])
    elif scn["call"] == "matrix":
        m = np.asarray(scn["matrix"], dtype=bool).reshape(n_pre, n_post)
        po, qo = order_of(scn["pre"], scn["view"]), order_of(scn["post"], scn["view"])
        want = Counter((po[i], qo[j]) for i in range(n_pre) for j in range(n_post) if m[i, j])
    else:
        want = None
    if want is not None:
        if got != want:
            miss = sorted((want - got).elements())
            extra = sorted((got - want).elements())
            fails.append(("pairs_multiset", f"missing pairs {miss}, surplus pairs {extra} (pre {scn['pre']} post {scn['post']})", {}))
    else:
        if k is not None and len(new) != k:
            fails.append(("count_equals_binomial_answer", f"{len(new)} new synapses, binomial answer {k}", {}))
        bad = [pq for pq in got_pairs if pq[0] not in pre_set or pq[1] not in post_set]
        if bad:
            fails.append(("pairs_inside_pre_x_post", f"pairs {bad} outside {scn['pre']} x {scn['post']}", {}))
        elif picks is not None and got != Counter(picks):
            # the intended cells of a sparse connection are the cells that were drawn for it
            if Counter(a for a, _ in got_pairs) != Counter(a for a, _ in picks):
                fails.append(("pre_cell_is_drawn_cell", f"pairs {sorted(got_pairs)}, drawn {sorted(picks)}", {}))
            else:
                fails.append(("post_site_in_intended_cell", f"pairs {sorted(got_pairs)}, drawn (pre, post) cells {sorted(picks)}", {}))
        if max(got.values(), default=0) > 1:
            cover.append("same_pair_drawn_twice")

    # --- sites
    bad_pre = [
        (i, r["pre_global_comp_index"])
        for i, r in enumerate(new)
        if r["pre_global_comp_index"] != T.first_comp(T.cell_of(r["pre_global_comp_index"]))
    ]
    if bad_pre:
        fails.append(("pre_site_first_comp", f"(new row, pre comp) {bad_pre}", {}))
    got_comps = sorted(int(r["post_global_comp_index"]) for r in new)
    if comps is not None and got_comps != sorted(int(c) for c in comps):
        fails.append(("post_site_is_chosen_comp", f"post comps {got_comps}, oracle chose {sorted(int(c) for c in comps)}", {}))
    bad_loc = [
        i
        for i, r in enumerate(new)
        if abs(r["pre_locs"] - T.loc_of(r["pre_global_comp_index"])) > 1e-12
        or abs(r["post_locs"] - T.loc_of(r["post_global_comp_index"])) > 1e-12
    ]
    if bad_loc:
        fails.append(("locs_match_comps", f"new rows {bad_loc}", {}))

    # --- type and parameters
    names = []
    for t in prior_types(scn["prior"], scn["syn"]) + [scn["syn"]]:
        if t not in names:
            names.append(t)
    if new:
        tind = names.index(scn["syn"])
        if any(r["type"] != scn["syn"] or r["type_ind"] != tind for r in new):
            fails.append(("type_columns", f"want type {scn['syn']} type_ind {tind}, got {[(r['type'], r['type_ind']) for r in new]}", {}))
        if tind == 1 and nb > 0:
            cover.append("new_synapse_type_gets_type_ind_1")
        syn = syn_obj(scn["syn"])
        want_par = {**syn.synapse_params, **syn.synapse_states}
        bad_par = [(i, key) for i, r in enumerate(new) for key, v in want_par.items() if r.get(key) != v]
        if bad_par:
            fails.append(("params_filled", f"(new row, key) {bad_par[:6]}", {}))
        if any(r.get("controlled_by_param") != 0 for r in rows):
            fails.append(("params_filled", "controlled_by_param not 0", {"col": "controlled_by_param"}))
        if list(net.synapse_names) != names:
            fails.append(("synapse_registry", f"synapse_names {list(net.synapse_names)} want {names}", {}))
        elif [type(s).__name__ for s in net.synapses] != names:
            fails.append(("synapse_registry", f"synapses {[type(s).__name__ for s in net.synapses]} want {names}", {}))
        if any(T.ncomp[p[1]] > 1 for p in got_pairs):
            cover.append("post_cell_with_several_comps")
        if any(r["post_global_comp_index"] != T.first_comp(p[1]) for r, p in zip(new, got_pairs)):
            cover.append("post_site_not_first_comp_of_cell")
        if any(T.ncomp[p[0]] > 1 for p in got_pairs):
            cover.append("pre_cell_with_several_comps")
    state = digest([scn["net"], rows])
    return fails, cover, state


def scn_cover(scn):
    cov = [f"call:{scn['call']}", f"synapse:{scn['syn']}", f"net:{scn['net']}", f"prior:{scn['prior']}"]
    n_pre, n_post = len(scn["pre"]), len(scn["post"])
    if n_pre != n_post:
        cov += ["n_pre_ne_n_post", f"{scn['call']}:n_pre_ne_n_post"]
    else:
        cov += ["n_pre_eq_n_post"]
    cov.append(f"{scn['call']}:{n_pre}x{n_post}")
    a, b = set(scn["pre"]), set(scn["post"])
    cov.append("identical_populations" if a == b else ("overlapping_populations" if a & b else "disjoint_populations"))
    if a == b:
        cov.append("overlapping_populations")
    if scn["prior"] != "none":
        cov.append("existing_edges_before_call")
    if scn["pre"] != sorted(scn["pre"]) or scn["post"] != sorted(scn["post"]):
        cov.append("population_given_in_unsorted_order")
    if scn["view"] == "select":
        cov.append("select_view_population")
    if scn["call"] == "sparse":
        cov.append(f"p={scn['p']:g}")
    return cov


def make_sig(scn, rule, trace, extra):
    call = {"fully": "fully_connect", "sparse": "sparse_connect", "matrix": "connectivity_matrix_connect"}[scn["call"]]
    sig = {"call": call, "rule": rule, "class": shape_class(scn, trace)}
    sig.update(extra)
    return sig


def describe_network(scn):
    return {
        "cells": [{"parents": list(p), "ncomps": list(n)} for p, n in NETS[scn["net"]]],
        "edges_before_call": [
            {"pre": f"cell({a}).branch(0).comp(0)", "post": f"cell({b}).branch(0).comp(0)",
             "synapse": scn["syn"] if w == "same" else other_syn(scn["syn"])}
            for a, b, w in PRIORS[scn["prior"]]
        ],
    }


def make_witness(scn, oracle):
    """Network description + call + the recorded answer of every choice point."""
    return {
        "scn": scn,
        "network": describe_network(scn),
        "answers": oracle.answers(),
        "draws": [{"draw": p.label, "domain_size": p.n, "answer": p.answer, "value": p.value} for p in oracle.trace],
    }


def run_once(scn, prefix, policy="first"):
    o = choices.Oracle(prefix, policy)
    net, before, exc = execute(scn, o)
    fails, cover, state = check_outcome(scn, o, net, before, exc)
    return o, fails, cover, state


# ------------------------------------------------------------------------------------------ planning
def binom_domain(n, p):
    return [0] if p == 0 else ([n] if p == 1 else list(range(n + 1)))


def static_domains(scn, root):
    """Domain sizes of the choice points that are known before running (given the root answers)."""
    T = tabs(scn["net"])
    n_pre, n_post = len(scn["pre"]), len(scn["post"])
    if scn["call"] == "fully":
        return [T.ncomp[c] for c in sorted(scn["post"]) for _ in range(n_pre)]
    if scn["call"] == "matrix":
        qo = order_of(scn["post"], scn["view"])
        m = np.asarray(scn["matrix"], dtype=bool).reshape(n_pre, n_post)
        return [T.ncomp[qo[j]] for i in range(n_pre) for j in range(n_post) if m[i, j]]
    dom = binom_domain(n_pre * n_post, scn["p"])
    if not root:
        return [len(dom)]
    k = dom[root[0]]
    return [len(dom)] + [n_pre] * k + [n_post] * k


def leaves(scn, root):
    """Exact number of leaves below `root` (sparse: root must contain the binomial answer)."""
    T = tabs(scn["net"])
    if scn["call"] in ("fully", "matrix"):
        return math.prod(static_domains(scn, root)[len(root):])
    n_pre, n_post = len(scn["pre"]), len(scn["post"])
    dom = binom_domain(n_pre * n_post, scn["p"])
    k = dom[root[0]]
    fixed_pre = min(max(len(root) - 1, 0), k)
    fixed_post = min(max(len(root) - 1 - k, 0), k)
    total = sum(T.ncomp[c] for c in scn["post"])
    out = n_pre ** (k - fixed_pre)
    # the post cell domain of the draw is the view's order of cells
    po = _sparse_post_domain(scn)
    for j in range(fixed_post):
        out *= T.ncomp[po[root[1 + k + j]]]
    out *= total ** (k - fixed_post)
    return out


def _sparse_post_domain(scn):
    return order_of(scn["post"], scn["view"])


def bounded_runs(scn, root, max_dev):
    """Estimated number of runs of a deviation-bounded job per policy."""
    T = tabs(scn["net"])
    doms = static_domains(scn, root)[len(root):] if scn["call"] != "sparse" else None
    if scn["call"] == "sparse":
        n_pre, n_post = len(scn["pre"]), len(scn["post"])
        k = binom_domain(n_pre * n_post, scn["p"])[root[0]]
        avg = max(1, round(sum(T.ncomp[c] for c in scn["post"]) / n_post))
        doms = [n_pre] * k + [n_post] * k + [avg] * k
    alts = [d - 1 for d in doms]
    s1 = sum(alts)
    s2 = (s1 * s1 - sum(a * a for a in alts)) // 2
    return 1 + (s1 if max_dev >= 1 else 0) + (s2 if max_dev >= 2 else 0)


def jobs_of(scn, cfg):
    """Split one scenario into exploration jobs."""
    call = scn["call"]
    if call == "matrix":
        size = len(scn["pre"]) * len(scn["post"])
        _, cap, md_rule, pols = next(r for r in cfg["matrix_rule"] if size <= r[0])
    else:
        cap, md_rule, pols = cfg["cap_complete"][call], None, cfg["policies"][call]
    item_n = max(8, int(cfg["item"] / cost_of(scn, [0])))
    # budget of the model-free exploration that is used when the builder does not draw the way the planner assumes
    generic = {"cap": cap, "cap_dev2": cfg["cap_dev2"].get(call, 100), "max_dev": md_rule, "policies": list(pols)}
    roots = [[]]
    if scn["call"] == "sparse":
        roots = [[i] for i in range(len(binom_domain(len(scn["pre"]) * len(scn["post"]), scn["p"])))]
    out = []
    for root in roots:
        frozen = len(root)
        n = leaves(scn, root)
        if n <= cap:
            # complete; split below static choice points until an item is small enough
            pend = [list(root)]
            while pend:
                r = pend.pop()
                nr = leaves(scn, r)
                doms = static_domains(scn, r)
                if nr > item_n and len(r) < len(doms) and doms[len(r)] > 1:
                    pend += [r + [a] for a in range(doms[len(r)])]
                elif nr > item_n and len(r) < len(doms):
                    pend.append(r + [0])
                else:
                    out.append({"scn": scn, "mode": "complete", "root": r, "root_domains": doms[: len(r)], "frozen": frozen,
                                "max_dev": None, "policies": ["first"], "est": nr, "tree": n, "cost": nr * cost_of(scn, r),
                                "generic": generic})
        else:
            if md_rule is None:
                md = 2 if bounded_runs(scn, root, 2) <= cfg["cap_dev2"][call] else 1
                if call == "sparse" and scn["p"] == 1.0 and len(scn["pre"]) * len(scn["post"]) >= cfg["p1_defaults_only_from"]:
                    md = 0  # the tree below (p=1, k=N) is the same tree as below (p=0.5, k=N), which is explored
            else:
                md = md_rule
            doms = static_domains(scn, root)
            for pol in pols:
                est = bounded_runs(scn, root, md)
                out.append({"scn": scn, "mode": "bounded", "root": list(root), "root_domains": doms[: len(root)], "frozen": frozen,
                            "max_dev": md, "policies": [pol], "est": est, "tree": n, "cost": est * cost_of(scn, root),
                            "generic": generic})
    return out


def _scn(net, prior, syn, call, pre, post, view, **kw):
    d = {"net": net, "prior": prior, "syn": syn, "call": call, "pre": list(pre), "post": list(post), "view": view}
    d.update(kw)
    return d


def pairs_all(net_id, maxsize=3):
    n = len(NETS[net_id])
    subs = [list(s) for r in range(1, maxsize + 1) for s in itertools.combinations(range(n), r)]
    return [(a, b) for a in subs for b in subs]


VARIANTS_QUICK = [
    ("cell", "none", "IonotropicSynapse"),
    ("select", "same", "TestSynapse"),
    ("cell", "mixed", "TestSynapse"),
    ("select", "other", "IonotropicSynapse"),
]


SMALL = {  # sub-list of the core pairs used for the secondary variants in the quick tier
    "A": [([1], [1]), ([0], [3, 1]), ([0, 1], [3, 1]), ([0, 3], [1, 0, 3]), ([2, 3, 1], [3, 0]), ([1, 0, 3], [0, 3, 1])],
    "B": [([1, 0], [2, 3, 4])],
}


def scenarios(tier):
    scns = []
    if tier == "quick":
        core = [("A", p, q) for p, q in CORE["A"]] + [("B", p, q) for p, q in CORE["B"]]
        small = [("A", p, q) for p, q in SMALL["A"]] + [("B", p, q) for p, q in SMALL["B"]]
        for vi, (view, prior, syn) in enumerate(VARIANTS_QUICK):
            for net, pre, post in core if vi <= 1 else small:
                scns.append(_scn(net, prior, syn, "fully", pre, post, view))
                for p in PS:
                    if vi >= 1 and (p != 0.5 or len(pre) * len(post) > 4):
                        continue
                    if (net == "B" and len(pre) == 3) or (pre, post) == ([0, 1, 2], [3, 2, 1]):
                        continue  # quick tier: sparse 3x2 on network A only, 3x3 on one pair of populations
                    scns.append(_scn(net, prior, syn, "sparse", pre, post, view, p=p))
        mpops = MATRIX_POPS["quick"]
        mvariants = [VARIANTS_QUICK[1]]
    else:
        variants = [(v, pr, SYNS[(i + j) % 2]) for i, v in enumerate(("cell", "select")) for j, pr in enumerate(PRIORS)]
        for net in ("A", "B", "C"):
            for pre, post in CORE[net]:
                for view, prior, syn in variants:
                    scns.append(_scn(net, prior, syn, "fully", pre, post, view))
                for vi, (view, prior, syn) in enumerate(VARIANTS_QUICK):
                    for p in PS:
                        if vi >= 2 and (p != 0.5 or len(pre) * len(post) > 6):
                            continue  # the trees of p=0 / p=1 are the k=0 / k=N subtrees of p=0.5
                        scns.append(_scn(net, prior, syn, "sparse", pre, post, view, p=p))
        for pre, post in pairs_all("A"):
            scns.append(_scn("A", "none", "IonotropicSynapse", "fully", pre, post, "cell"))
            if len(pre) * len(post) <= 4:
                scns.append(_scn("A", "other", "TestSynapse", "sparse", pre, post, "cell", p=0.5))
        mpops = MATRIX_POPS["quick"] + MATRIX_POPS["thorough"]
        mvariants = [VARIANTS_QUICK[1], VARIANTS_QUICK[2]]
    for vi, (view, prior, syn) in enumerate(mvariants):
        for net, pre, post in mpops if vi == 0 else MATRIX_POPS["quick"]:
            for bits in itertools.product([0, 1], repeat=len(pre) * len(post)):
                scns.append(_scn(net, prior, syn, "matrix", pre, post, view, matrix=list(bits)))
    # wide network D: populations with cell indices around and beyond 8
    for pre, post in WIDE:
        scns.append(_scn("D", "none", "IonotropicSynapse", "fully", pre, post, "cell"))
        scns.append(_scn("D", "same", "TestSynapse", "fully", pre, post, "select"))
        for bits in _wide_matrices(len(pre), len(post)):
            scns.append(_scn("D", "same", "TestSynapse", "matrix", pre, post, "select", matrix=bits))
            scns.append(_scn("D", "none", "IonotropicSynapse", "matrix", pre, post, "cell", matrix=bits))
            scns.append(_scn("D", "none", "IonotropicSynapse", "matrix", pre, post, "cell", matrix=bits, layout="F"))
            scns.append(_scn("D", "same", "TestSynapse", "matrix", pre, post, "select", matrix=bits, layout="T"))
        if len(pre) * len(post) <= 4:
            scns.append(_scn("D", "other", "TestSynapse", "sparse", pre, post, "cell", p=0.5))
    # column-major / transposed-view matrices on the small networks too (every matrix of two population pairs)
    for net, pre, post in [("A", [0], [3, 1]), ("A", [3, 0, 1], [2]), ("A", [0, 1], [3, 1]), ("A", [2, 3, 1], [3, 0])]:
        for bits in itertools.product([0, 1], repeat=len(pre) * len(post)):
            for lay in ("F", "T"):
                scns.append(_scn(net, "same", "TestSynapse", "matrix", pre, post, "select", matrix=list(bits), layout=lay))
    # no duplicates
    seen, out = set(), []
    for s in scns:
        key = digest(s)
        if key not in seen:
            seen.add(key)
            out.append(s)
    return out


def forward_scenarios(tier):
    """Scenarios of the self test 'the proxy sees every draw and answers like the real generator'."""
    out = []
    for net, pre, post in [("A", [1, 0], [3, 2]), ("A", [0, 3], [1, 0, 3]), ("B", [3, 0, 2], [1, 4, 0])]:
        for view, prior, syn in VARIANTS_QUICK[1:2] if tier == "quick" else VARIANTS_QUICK:
            out.append(_scn(net, prior, syn, "fully", pre, post, view))
            out.append(_scn(net, prior, syn, "sparse", pre, post, view, p=0.5))
            m = [(i * 7 + 3) % 3 != 0 for i in range(len(pre) * len(post))]
            out.append(_scn(net, prior, syn, "matrix", pre, post, view, matrix=[int(x) for x in m]))
    return out


def pack(jobs, target):
    """Pack jobs into work items of about `target` executions (order preserved inside an item)."""
    items, cur, tot = [], [], 0
    for j in sorted(jobs, key=lambda j: (j["scn"]["net"], j["scn"]["prior"], j["scn"]["syn"], -j["cost"])):
        if cur and (tot + j["cost"] > target or (cur[0]["scn"]["net"], cur[0]["scn"]["prior"], cur[0]["scn"]["syn"])
                    != (j["scn"]["net"], j["scn"]["prior"], j["scn"]["syn"])):
            items.append({"kind": "explore", "jobs": cur})
            cur, tot = [], 0
        cur.append(j)
        tot += j["cost"]
    if cur:
        items.append({"kind": "explore", "jobs": cur})
    return items


def plan(tier):
    cfg = TIER[tier]
    scns = scenarios(tier)
    jobs = []
    for s in scns:
        jobs += jobs_of(s, cfg)
    items = pack(jobs, cfg["item"])
    fwd = forward_scenarios(tier)
    for i in range(0, len(fwd), 6):
        items.append({"kind": "forward", "scns": fwd[i : i + 6], "seeds": cfg["forward_seeds"]})
    return scns, jobs, items


# ------------------------------------------------------------------------------------------ explore / work
def explore(ctx):
    cfg = TIER[ctx.tier]
    scns, jobs, items = plan(ctx.tier)
    by = Counter()
    for j in jobs:
        by[(j["scn"]["call"], j["mode"] + ("" if j["mode"] == "complete" else f"<={j['max_dev']}"))] += 1
    n_complete_scn = {}
    modes = {}
    for j in jobs:
        modes.setdefault(id(j["scn"]), set()).add(j["mode"])
    for s in scns:
        n_complete_scn.setdefault(s["call"], [0, 0])
        n_complete_scn[s["call"]][0 if modes[id(s)] == {"complete"} else 1] += 1
    ctx.note("scenarios", {"total": len(scns), **{c: sum(1 for s in scns if s["call"] == c) for c in ("fully", "sparse", "matrix")}})
    ctx.note("jobs", {f"{c}:{m}": n for (c, m), n in sorted(by.items())})
    ctx.note("scenarios_completely_enumerated_vs_bounded", {c: {"complete": v[0], "with_bounded_part": v[1]} for c, v in n_complete_scn.items()})
    ctx.note("planned_executions", int(sum(j["est"] for j in jobs)))
    ctx.note("caps", {k: v for k, v in cfg.items()})
    ctx.note(
        "bound",
        "networks A (comps/cell 1,3,4,2), B (2,1,4,3,1), C (3,1,2); populations of 1-3 cells; priors none/same/other/mixed; "
        "binomial answer always enumerated completely (own job per answer); RNG tree complete when leaves <= cap, else all "
        "paths with <= max_dev non-default answers around each default policy (first/last/cycle)",
    )
    ctx.exhaustive = all(j["mode"] == "complete" for j in jobs)
    res = ctx.map("work", items)
    ctx.states = len(ctx.digests)
    # ctx.transitions is accumulated by absorb()
    trees = Counter()
    pts = 0
    for _, r in res:
        for k, v in (r.get("stats") or {}).items():
            if k == "choice_points":
                pts += v
            else:
                trees[k] += v
    ctx.note("choice_points_answered", int(pts))
    ctx.note("leaves", dict(trees))
    off = [r.get("model_off") for _, r in res if r.get("model_off")]
    if off:
        # the builder draws differently from the planner's model: those jobs were explored model-free
        ctx.note("draw_model_mismatch", {"work_items": len(off), "first": off[0]})
        if trees.get("generic_bounded_jobs") or trees.get("generic:bounded_budget_exhausted"):
            ctx.exhaustive = False


MAX_WITNESSES_PER_SIG = 2


def _add_violation(out, seen, scn, o, rule, msg, extra):
    sig = make_sig(scn, rule, o.trace, extra)
    key = digest(sig)
    seen[key] = seen.get(key, 0) + 1
    wit = make_witness(scn, o)
    cands = out["_viol"].setdefault(key, [])
    cands.append({"sig": sig, "witness": wit, "msg": msg})
    cands.sort(key=lambda v: (len(v["witness"]["answers"]), sum(v["witness"]["answers"])))
    del cands[MAX_WITNESSES_PER_SIG:]


def work(item):
    out = {"evals": 0, "transitions": 0, "digests": set(), "cover": set(), "refusals": [], "violations": [], "_viol": {},
           "stats": Counter()}
    seen = {}
    if item["kind"] == "forward":
        _work_forward(item, out, seen)
    else:
        for job in item["jobs"]:
            _work_job(job, out, seen)
    for key, cands in out.pop("_viol").items():
        for v in cands:
            v["msg"] += f" [{seen[key]} leaves with this signature in the work item]"
            out["violations"].append(v)
    out["digests"] = sorted(out["digests"])
    out["cover"] = sorted(out["cover"])
    out["stats"] = dict(out["stats"])
    return out


class _ModelOff(Exception):
    """The real tree of draws is not the planned one; the job continues with the model-free exploration."""


def _check_leaf(scn, o, net, before, exc, out, seen):
    fails, cover, state = check_outcome(scn, o, net, before, exc)
    out["cover"].update(cover)
    out["stats"]["choice_points"] += len(o.trace)
    out["evals"] += 1
    out["transitions"] += 1
    if state is not None:
        out["digests"].add(state)
    for rule, msg, extra in fails:
        _add_violation(out, seen, scn, o, rule, msg, extra)
    return "draw_model_mismatch" in cover


def _runner(scn, policy, box, root_len):
    def run(prefix):
        o = choices.Oracle(prefix, policy)
        try:
            net, before, exc = execute(scn, o)
        except choices.PrefixOutOfDomain as e:
            if len(o.trace) >= root_len:
                raise  # an answer chosen by the explorer itself must exist: nondeterminism outside the oracle
            box["last"] = (o, None, None, e)  # a prescribed root answer does not exist in the real tree
            return o.trace, "invalid_root"
        box["last"] = (o, net, before, exc)
        return o.trace, None

    return run


def _work_job(job, out, seen):
    scn = job["scn"]
    out["cover"].update(scn_cover(scn))
    try:
        _explore_planned(job, out, seen)
        out["cover"].add("complete_tree" if job["mode"] == "complete" else "deviation_bounded_tree")
    except _ModelOff as e:
        out["cover"].add("draw_model_mismatch")
        out["stats"]["jobs_with_unplanned_tree"] += 1
        out.setdefault("model_off", str(e)[:300])
        _explore_generic(job, out, seen)
    if "sample" not in out:
        out["sample"] = {"scenario": scn, "mode": job["mode"], "root": job["root"], "max_dev": job["max_dev"], "tree_leaves": job["tree"]}


def _explore_planned(job, out, seen):
    """Explore the tree the planner computed from its model of the builder's draws. Every leaf re-validates the
    model; the first sign that the builder draws differently ends the planned exploration (_ModelOff)."""
    scn, root, rdoms = job["scn"], job["root"], job["root_domains"]
    for policy in job["policies"]:
        box = {}
        n, raised = 0, False
        for r in choices.explore(_runner(scn, policy, box, len(root)), root=root, max_dev=job["max_dev"], frozen=job["frozen"],
                                 max_runs=20 * job["est"] + 50):
            o, net, before, exc = box["last"]
            if r.result == "invalid_root":
                raise _ModelOff(f"{exc}")
            for i, d in enumerate(rdoms):
                if i < len(r.trace) and r.trace[i].n != d:
                    raise _ModelOff(f"choice point {i} has {r.trace[i].n} alternatives, the planner assumed {d}")
            n += 1
            raised = raised or exc is not None
            if _check_leaf(scn, o, net, before, exc, out, seen):
                raise _ModelOff("the draws of this leaf do not have the modelled structure")
        out["stats"][f"{scn['call']}:{job['mode']}"] += n
        if job["mode"] == "complete" and n != job["est"]:
            # the model matched on every leaf, so the planner's leaf count is exact; only an exception raised before
            # all draws were made can shrink a tree. Anything else is a defect of the explorer itself.
            if n > job["est"] or not raised:
                raise choices.HarnessError(f"complete job ran {n} leaves, planned {job['est']}: {job}")
            out["stats"]["complete_jobs_smaller_than_planned"] += 1


def _bounded_estimate(doms, max_dev):
    alts = [d - 1 for d in doms]
    s1 = sum(alts)
    s2 = (s1 * s1 - sum(a * a for a in alts)) // 2
    return 1 + (s1 if max_dev >= 1 else 0) + (s2 if max_dev >= 2 else 0)


def _explore_generic(job, out, seen):
    """Model-free exploration of the real tree of draws (whatever the builder draws, as long as the oracle owns it):
    complete when the tree is small, deviation-bounded around the default policies otherwise. The outcome rules that
    do not need the model are applied to every leaf."""
    scn, g = job["scn"], job["generic"]
    frozen = job["frozen"]
    box = {}
    # does the frozen part of the planned root (the binomial answer of sparse_connect) exist as planned?
    head = job["root"][:frozen]
    trace, res = _runner(scn, "first", box, len(head))(list(head))
    frozen_ok = res is None and all(i < len(trace) and trace[i].n == d for i, d in enumerate(job["root_domains"][:frozen]))
    if frozen_ok:
        # siblings that only differ below the frozen part would all explore the same subtree: the first one does it
        if any(job["root"][frozen:]):
            out["stats"]["generic:left_to_sibling_job"] += 1
            return
        root = list(head)
    else:
        if any(job["root"]):
            out["stats"]["generic:left_to_sibling_job"] += 1
            return
        root, frozen = [], 0
        trace, res = _runner(scn, "first", box, 0)([])
    o, net, before, exc = box["last"]
    _check_leaf(scn, o, net, before, exc, out, seen)  # the probe is a real execution
    doms = [p.n for p in trace[max(len(root), frozen):]]
    done_complete = False
    if math.prod(doms) <= g["cap"]:
        try:
            n = 0
            for r in choices.explore(_runner(scn, "first", box, len(root)), root=root, frozen=frozen, max_runs=3 * g["cap"] + 10):
                o, net, before, exc = box["last"]
                _check_leaf(scn, o, net, before, exc, out, seen)
                n += 1
            out["stats"][f"{scn['call']}:generic_complete"] += n
            out["cover"].add("complete_tree")
            done_complete = True
        except choices.BudgetExceeded:
            out["stats"]["generic:tree_larger_than_probe_suggested"] += 1
    if not done_complete:
        md = 2 if _bounded_estimate(doms, 2) <= g["cap_dev2"] else (1 if _bounded_estimate(doms, 1) <= max(g["cap"], g["cap_dev2"]) else 0)
        if g["max_dev"] is not None:
            md = min(md, g["max_dev"])
        pols = g["policies"] if job["mode"] == "complete" else job["policies"]
        for policy in pols:
            n = 0
            try:
                for r in choices.explore(_runner(scn, policy, box, len(root)), root=root, frozen=frozen, max_dev=md,
                                         max_runs=30 * _bounded_estimate(doms, md) + 200):
                    o, net, before, exc = box["last"]
                    _check_leaf(scn, o, net, before, exc, out, seen)
                    n += 1
            except choices.BudgetExceeded:
                out["stats"]["generic:bounded_budget_exhausted"] += 1
            out["stats"][f"{scn['call']}:generic_bounded<={md}"] += n
        out["cover"].add("deviation_bounded_tree")
        out["stats"]["generic_bounded_jobs"] += 1


def _edges_or_exc(net, exc):
    if exc is not None:
        return {"exc": type(exc).__name__}
    return canon_edges(net)


def _work_forward(item, out, seen):
    """Self test: with the oracle answering like numpy's generator, jaxley behaves exactly as without interception,
    and the oracle consumed exactly as much of the random stream as the un-intercepted call (it sees every draw)."""
    if choices.selftest_forwarding(tuple(item["seeds"])) > 0:
        out["cover"].add("oracle_forwards_every_owned_draw_like_numpy")
    for scn in item["scns"]:
        T = tabs(scn["net"])
        for si, seed in enumerate(item["seeds"]):
            # un-intercepted reference run with the real global generator; the first seed uses a freshly built
            # network (not the pickled base), so that the pickle round trip of the base is covered as well
            keep = np.random.get_state()
            try:
                np.random.seed(seed)
                if si == 0:
                    ref = build_base(scn["net"], scn["prior"], scn["syn"])
                else:
                    ref = pickle.loads(base_bytes(scn["net"], scn["prior"], scn["syn"]))
                exc_ref = None
                try:
                    call_builder(ref, scn, T, syn_obj(scn["syn"]))
                except Exception as e:
                    exc_ref = e
                end_state = np.random.get_state()
            finally:
                np.random.set_state(keep)
            o = choices.Oracle.forwarding(seed)
            net, before, exc = execute(scn, o)
            a, b = _edges_or_exc(ref, exc_ref), _edges_or_exc(net, exc)
            if digest(a) != digest(b):
                raise choices.HarnessError(f"forwarding oracle and real generator disagree for seed {seed}: {scn}\n{a}\n{b}")
            if not _same_state(end_state, o._rs.get_state()):
                raise choices.HarnessError(f"the oracle did not consume the same random stream as the real call (seed {seed}): {scn}")
            out["cover"].add("proxy_faithful_to_real_rng")
            out["cover"].update(scn_cover(scn))
            out["evals"] += 1
            out["transitions"] += 2
            out["stats"]["forward_selftest_pairs"] += 1
            out["stats"]["choice_points"] += len(o.trace)
            fails, cover, state = check_outcome(scn, o, net, before, exc)
            out["cover"].update(cover)
            if state is not None:
                out["digests"].add(state)
            for rule, msg, extra in fails:
                _add_violation(out, seen, scn, o, rule, msg, extra)


def replay(w):
    scn = w["scn"]
    if "network" in w and w["network"] != describe_network(scn):
        raise choices.HarnessError("the witness was recorded for another network catalogue")
    o = choices.Oracle(w["answers"], "first")
    net, before, exc = execute(scn, o)
    if o.answers()[: len(w["answers"])] != list(w["answers"])[: len(o.trace)]:
        raise choices.HarnessError("replay diverged from the recorded answers")
    fails, _, _ = check_outcome(scn, o, net, before, exc)
    return [{"sig": make_sig(scn, rule, o.trace, extra), "witness": w, "msg": msg} for rule, msg, extra in fails]
