"""C18 — modules survive pickling and deep copies unchanged and independent.

The states are those of the C19 editing state space (same initial states and operation alphabet, explored by
the same BFS) plus an SWC cell with radius-generating functions and a network with trainables/clamps/groups.
For every distinct reached state: pickle round trip and deepcopy must preserve the canonical snapshot and the
simulation (and gradient where trainables exist); then every operation of the alphabet is applied to the copy
and the original's canonical hash must not change.
"""
from __future__ import annotations

import copy
import os
import pickle
import tempfile

import numpy as np

from vf import build, canon, explorer
from vf.checks import c19 as spec
from vf.runner import digest

ID = "C18"
LEVEL = "model_checking"
RULE = (
    "states = all distinct canonical states reached by BFS over the C19 operation alphabet from five initial states (three of C19, "
    "an SWC cell with radius functions, a network with trainables/clamp/group/recordings) to depth 1 (quick) / 2 (thorough); per state: "
    "pickle.loads(dumps) and deepcopy -> snapshot equality incl. xyzr, integrate equality (bit for bit), gradient equality at the "
    "trainable initial states; then every alphabet operation applied to the copy must leave the original's snapshot hash unchanged; "
    "views (level, comp, multi-location .loc, global scope, select, group, channel, synapse) of every state are copied by pickle, deepcopy "
    "and .copy(): view tables incl. the sharing column, view index sets, scope and base must be equal, make_trainable/set through the copied "
    "view must behave as through the view itself, and the original module must stay unchanged; every copy is also made with the "
    "original dropped and garbage-collected before the copy is used (tables, simulation, set_ncomp), and every initial state is saved "
    "here and loaded in a fresh interpreter (tables, simulation, set_ncomp must equal the saving process)"
)
REQUIRED_COVER = ["coordinate_edit_on_copy_compared_with_original", "copy_used_after_original_died", "set_ncomp_on_swc_copy_after_original_died", "pickle_loaded_in_fresh_process", "view_copied", "loc_view_copied", "make_trainable_on_copied_view", "coordinates_edited_on_copy", "swc_radius_functions", "network_with_synapses", "trainables", "clamps", "groups", "gradient_compared",
                  "set_ncomp_on_unpickled_swc", "copy_edited_original_unchanged"]
ASSUMPTIONS = ["eager CPU execution is deterministic, so identical modules give bit-identical integrate results"]
SIG_INIT = False
EXPAND_BROKEN_STATES = True
FRESH_FROM_SCRATCH = True  # originals are built by the public API every time, never taken from a deep copy
T = 3
DT = 0.025

SWC = """# harness-written
1 1 0.0 0.0 0.0 6.0 -1
2 1 0.0 4.0 0.0 5.0 1
3 1 0.0 8.0 0.0 4.0 2
4 3 0.0 14.0 0.0 1.1 3
5 3 0.0 22.0 0.0 0.8 4
6 3 5.0 27.0 0.0 0.6 5
7 3 -4.0 28.0 0.0 0.5 5
8 2 6.0 0.0 0.0 0.9 1
9 2 13.0 0.0 0.0 0.4 8
"""


def _swc_cell():
    J = build.jx()
    from jaxley.channels import HH

    fd, path = tempfile.mkstemp(suffix=".swc")
    with os.fdopen(fd, "w") as f:
        f.write(SWC)
    try:
        c = J.read_swc(path, ncomp=2)
    finally:
        os.unlink(path)
    c.insert(HH())
    # one view object added to two groups: both groups then hold the very same index array object (aliasing survives a copy as
    # shared-but-writeable arrays; seeded change S99); the grouped branches come after the ones the set_ncomp operations modify
    nb = len(c.comb_parents)
    v = c.branch([nb - 2, nb - 1])
    v.add_to_group("alias_a")
    v.add_to_group("alias_b")
    # the module itself added to two groups: the shared array comes straight from the node table's index (read-only in the original,
    # writeable after a copy)
    c.add_to_group("whole_a")
    c.add_to_group("whole_b")
    return c


def _net_rich():
    import jax.numpy as jnp

    net = spec.INITS["net2"]()
    net.cell(0).add_to_group("exc")
    net.cell(1).branch(0).make_trainable("radius", verbose=False)
    net.IonotropicSynapse.make_trainable("IonotropicSynapse_gS", verbose=False)
    net.cell(0).branch(1).clamp("v", jnp.asarray(-63.0 + np.arange(T)), verbose=False)
    net.cell(1).branch(0).comp(0).stimulate(0.1 * jnp.ones(T), verbose=False)
    net.record("v", verbose=False)
    net.TestSynapse.edge(0).record("TestSynapse_c", verbose=False)
    return net


INITS = dict(spec.INITS)
INITS["swc_cell"] = _swc_cell
INITS["net_rich"] = _net_rich
OPS = dict(spec.OPS)
# operations that edit the traced coordinates in place (only relevant for copy independence)
OPS["x_move"] = lambda m: m.move(10.0, -5.0, 2.0)
OPS["x_move_view"] = lambda m: (m.cell(0) if type(m).__name__ == "Network" else m.branch(0)).move(3.0, 4.0, 0.0)
OPS["x_rotate"] = lambda m: m.rotate(90)
OPS["x_compute_xyz"] = lambda m: m.compute_xyz()
# coordinate edits that also recompute the compartment centres stored in .nodes (x, y, z columns)
OPS["x_move_update_nodes"] = lambda m: m.move(-3.0, 7.0, 1.5, update_nodes=True)
OPS["x_rotate_update_nodes"] = lambda m: m.rotate(45, update_nodes=True)
OPS["x_centers"] = lambda m: (m.compute_xyz(), m.compute_compartment_centers())
_XOPS = ["x_move", "x_move_view", "x_rotate", "x_compute_xyz", "x_move_update_nodes", "x_rotate_update_nodes", "x_centers"]
_SWC_OPS = ["set_rad_b2c1", "set_v_b0", "ncomp_b1_2", "ncomp_b2_1", "group_b0", "rec_v_b2", "delrec_all", "stim_b0c0", "clamp_v_b1",
            "delstim_all", "delclamp_all", "train_rad_branches", "deltrain_all", "init_states", "ins_Leak_b0", "del_HH_all"]
_RICH_OPS = [k for k in spec.OPS_FOR["net2"] if k not in ("n_connect_Tanh",)]
OPS_FOR = dict(spec.OPS_FOR)
OPS_FOR["swc_cell"] = _SWC_OPS
OPS_FOR["net_rich"] = _RICH_OPS
OPS_FOR = {k: list(v) + _XOPS for k, v in OPS_FOR.items()}


def invariants(m, hist, **kw):
    return []


def cover_of(m, hist):
    return []


def expand(item):
    import sys

    return explorer.expand_item(sys.modules[__name__], item)


def _integrate(m, params=None):
    import jaxley as jx

    mm = m
    if len(mm.recordings) == 0:
        mm = copy.deepcopy(m)
        mm.record("v", verbose=False)
    kw = {} if mm.externals else {"t_max": (T - 1) * DT + DT / 2}
    if params is not None:
        kw["params"] = params
    return np.asarray(jx.integrate(mm, delta_t=DT, voltage_solver="jax.sparse", **kw))


def _grad(m):
    import jax
    import jax.numpy as jnp
    import jaxley as jx

    params = m.get_parameters()

    def loss(p):
        return jnp.sum(jx.integrate(m, params=p, delta_t=DT, voltage_solver="jax.sparse") ** 2)

    g = jax.grad(loss)(params)
    return [{k: np.asarray(v) for k, v in d.items()} for d in g]


def _view_menu(m):
    """Views (they are Modules too, and `view.copy()` is public API) whose copies are checked: every level, .loc views spanning
    several sharing groups, global scope, select, group, channel and synapse views."""
    net = type(m).__name__ == "Network"
    N = len(m.nodes)
    menu = [
        ("level", (lambda m: m.cell(1)) if net else (lambda m: m.branch(0))),
        ("comp", (lambda m: m.cell(0).branch(1).comp(0)) if net else (lambda m: m.branch(1).comp(0))),
        ("loc_multi", (lambda m: m.cell([0, 1]).branch(0).loc([0.0, 1.0])) if net else (lambda m: m.branch([0, 2]).loc([0.0, 1.0]))),
        ("global_scope", (lambda m: m.scope("global").branch(2)) if net else (lambda m: m.branch([1, 2]).scope("global").comp(N - 1))),
        ("select", lambda m: m.select(nodes=[0, N - 1])),
    ]
    if m.groups:
        g = sorted(m.groups)[0]
        menu.append(("group", lambda m, g=g: getattr(m, g)))
    if m.channels:
        c = m.channels[0]._name
        menu.append(("channel", lambda m, c=c: getattr(m, c)))
    if net and m.synapse_names:
        sname = m.synapse_names[-1]
        menu.append(("synapse", lambda m, sname=sname: getattr(m, sname).edge(0)))
    return menu


def _trainables_of(base):
    return [(list(p)[0], np.asarray(list(p.values())[0]).tolist(), np.asarray(i).tolist()) for p, i in zip(base.trainable_params, base.indices_set_by_trainables)]


def check_views(m, init, hist, out, viol):
    """Copies of views: same view tables (incl. the sharing column used by make_trainable), same base, same behaviour
    of make_trainable on the copy, and edits through the copied view do not reach the original module."""
    h0 = canon.hash_of(canon.snapshot(m, with_xyzr=True))
    base_snap = canon.snapshot(m, with_xyzr=True)
    for vname, vf_ in _view_menu(m):
        try:
            v = vf_(m)
            vsnap = canon.snapshot(v, with_xyzr=True)
        except Exception as e:
            out["refusals"].append(f"view_{vname}:{type(e).__name__}")
            continue
        for how in ("pickle", "deepcopy", "copy_method"):
            out["evals"] += 1
            try:
                c = pickle.loads(pickle.dumps(v)) if how == "pickle" else (copy.deepcopy(v) if how == "deepcopy" else v.copy())
            except Exception as e:
                viol("view_copy_raised", how, f"{vname}: {type(e).__name__}: {str(e)[:200]}", view=vname)
                continue
            out["cover"].append("view_copied")
            if vname == "loc_multi":
                out["cover"].append("loc_view_copied")
            d = canon.diff(vsnap, canon.snapshot(c, with_xyzr=True))
            for attr in ("_nodes_in_view", "_edges_in_view"):
                if list(np.asarray(getattr(c, attr))) != list(np.asarray(getattr(v, attr))):
                    d.append(f"/{attr}")
            if c._scope != v._scope:
                d.append("/_scope")
            if d:
                viol("view_tables_differ", how, f"{vname}: differs at {d[:6]}", view=vname, where=d[0].split("/")[1])
                continue
            db = canon.diff(base_snap, canon.snapshot(c.base, with_xyzr=True))
            if db:
                viol("view_base_differs", how, f"{vname}: base of the copied view differs at {db[:6]}", view=vname)
                continue
            # behaviour: make_trainable through the copied view shares parameters exactly as through a fresh view
            key = "radius" if not vname == "synapse" else [k for k in c.edges.columns if k.endswith(("_gS", "_gC")) and k.startswith(m.synapse_names[-1])][0]
            try:
                ref_m = copy.deepcopy(m)
                n_before = len(ref_m.trainable_params)
                vf_(ref_m).make_trainable(key, verbose=False)
                want = _trainables_of(ref_m)[n_before:]
                c.make_trainable(key, verbose=False)
                got = _trainables_of(c.base)[n_before:]
                out["cover"].append("make_trainable_on_copied_view")
                if got != want:
                    viol("view_behaviour_differs_after_copy", how, f"{vname}: make_trainable({key}) through the copied view gives {got}, through the view itself {want}", view=vname)
                c.set(key, 9.75)
                vals = (c.base.edges if vname == "synapse" else c.base.nodes)[key].to_numpy()
                inview = np.asarray(c._edges_in_view if vname == "synapse" else c._nodes_in_view)
                mask = np.zeros(len(vals), bool)
                mask[inview] = True
                orig_vals = (m.edges if vname == "synapse" else m.nodes)[key].to_numpy()
                if not (np.all(vals[mask] == 9.75) and np.array_equal(vals[~mask], orig_vals[~mask], equal_nan=True)):
                    viol("view_behaviour_differs_after_copy", how, f"{vname}: set through the copied view wrote rows other than the view's", view=vname)
            except Exception as e:
                viol("view_behaviour_differs_after_copy", how, f"{vname}: {type(e).__name__}: {str(e)[:200]}", view=vname)
            if canon.hash_of(canon.snapshot(m, with_xyzr=True)) != h0:
                viol("copy_not_independent", how, f"editing the copied view {vname} changed the original module", op="view")
                return


def check_after_original_died(init, hist, snap, sim0, out, viol):
    """A copy must not depend on its original staying alive (what save/load across sessions needs): the original is dropped
    and the cyclic garbage collector run BEFORE the copy is used."""
    import gc
    import sys

    mod = sys.modules[__name__]
    ncomp_ops = [op for op in explorer.ops_for(mod, init) if "ncomp" in op]
    for how in ("pickle", "deepcopy"):
        def make():
            orig = explorer.replay(mod, init, hist)
            res = pickle.dumps(orig) if how == "pickle" else copy.deepcopy(orig)
            del orig
            gc.collect()
            return pickle.loads(res) if how == "pickle" else res

        label = how + "_original_dead"
        c = make()
        out["evals"] += 1
        out["cover"].append("copy_used_after_original_died")
        d = canon.diff(snap, canon.snapshot(c, with_xyzr=True))
        if d:
            viol("tables_differ", label, f"differs at {d[:6]}", where=d[0].split("/")[1])
            continue
        if sim0 is not None:
            try:
                sim1 = _integrate(c)
                if sim1.shape != sim0.shape or not np.array_equal(sim1, sim0, equal_nan=True):
                    viol("simulation_differs", label, "copy used after the original was collected simulates differently")
            except Exception as e:
                viol("simulation_differs", label, f"copy raised {type(e).__name__}: {str(e)[:150]} but original simulates")
        for op in ncomp_ops:
            ref = explorer.replay(mod, init, hist)
            try:
                OPS[op](ref)
                want = ("ok", canon.snapshot(ref))
            except Exception as e:
                want = ("raise", type(e).__name__)
            del ref
            cc = make()
            try:
                OPS[op](cc)
                got = ("ok", canon.snapshot(cc))
            except Exception as e:
                got = ("raise", type(e).__name__)
            out["transitions"] += 1
            if init == "swc_cell":
                out["cover"].append("set_ncomp_on_swc_copy_after_original_died")
            if got[0] != want[0]:
                viol("behaviour_differs_after_copy", label, f"{op}: {got[0]} on the copy ({got[1] if got[0] == 'raise' else ''}), {want[0]} on the original", op=op.split("_")[0])
            elif got[0] == "ok":
                dd = canon.diff(want[1], got[1])
                if dd:
                    viol("behaviour_differs_after_copy", label, f"{op} on the copy (original collected) differs from {op} on the original at {dd[:4]}", op=op.split("_")[0])


def check_state(init, hist, do_sim, do_grad, do_xcmp=True, do_views=True):
    import sys

    mod = sys.modules[__name__]
    out = {"violations": [], "cover": [], "refusals": [], "digests": [], "evals": 0, "transitions": 0}
    wit = {"init": init, "history": list(hist)}

    def viol(rule, how, msg, **extra):
        sig = {"rule": rule, "copy": how}
        sig.update(extra)
        out["violations"].append({"sig": sig, "witness": dict(wit, copy=how), "msg": msg})

    m = explorer.replay(mod, init, hist)
    snap = canon.snapshot(m, with_xyzr=True)
    h0 = canon.hash_of(snap)
    if init == "swc_cell":
        out["cover"].append("swc_radius_functions")
    if len(m.edges):
        out["cover"].append("network_with_synapses")
    if m.trainable_params:
        out["cover"].append("trainables")
    if any(k != "i" for k in m.externals):
        out["cover"].append("clamps")
    if m.groups:
        out["cover"].append("groups")
    sim0 = None
    sim_err = None
    if do_sim:
        try:
            sim0 = _integrate(m)
        except Exception as e:
            sim_err = type(e).__name__
    g0 = None
    if do_grad and m.trainable_params and len(m.recordings):
        try:
            g0 = _grad(m)
        except Exception as e:
            g0 = None
    for how in ("pickle", "deepcopy"):
        out["evals"] += 1
        try:
            c = pickle.loads(pickle.dumps(m)) if how == "pickle" else copy.deepcopy(m)
        except Exception as e:
            viol("copy_raised", how, f"{type(e).__name__}: {str(e)[:200]}")
            continue
        d = canon.diff(snap, canon.snapshot(c, with_xyzr=True))
        if d:
            viol("tables_differ", how, f"differs at {d[:6]}", where=d[0].split("/")[1])
        if do_sim:
            try:
                sim1 = _integrate(c)
                if sim_err is not None:
                    viol("simulation_differs", how, f"copy simulates but original raised {sim_err}")
                elif sim1.shape != sim0.shape or not np.array_equal(sim1, sim0, equal_nan=True):
                    viol("simulation_differs", how, f"max abs diff {np.max(np.abs(sim1 - sim0)) if sim1.shape == sim0.shape else 'shape'}")
                else:
                    out["digests"].append(digest([init, digest(np.round(sim0, 8).tolist())]))
            except Exception as e:
                if sim_err is None:
                    viol("simulation_differs", how, f"copy raised {type(e).__name__}: {str(e)[:150]} but original simulates")
        if g0 is not None:
            try:
                g1 = _grad(c)
                out["cover"].append("gradient_compared")
                for a, b in zip(g0, g1):
                    for k in a:
                        if not np.allclose(a[k], b[k], rtol=1e-12, atol=0):
                            viol("gradient_differs", how, f"{k}: {a[k]} vs {b[k]}")
            except Exception as e:
                viol("gradient_differs", how, f"copy raised {type(e).__name__}: {str(e)[:150]}")
        # radius functions must survive (set_ncomp on the copy of an SWC cell)
        # independence: edit the copy with every operation of the alphabet; the original must not change
        for op in explorer.ops_for(mod, init):
            cc = pickle.loads(pickle.dumps(m)) if how == "pickle" else copy.deepcopy(m)
            try:
                OPS[op](cc)
            except Exception as e:
                out["refusals"].append(f"{op}:{type(e).__name__}")
                continue
            out["transitions"] += 1
            if ("ncomp" in op and init == "swc_cell" and how == "pickle") or (op.startswith("x_") and do_xcmp):
                if "ncomp" in op:
                    out["cover"].append("set_ncomp_on_unpickled_swc")
                else:
                    out["cover"].append("coordinate_edit_on_copy_compared_with_original")
                # the same operation on the original must give the same module (radius functions survived the round trip)
                oo = explorer.replay(mod, init, hist)  # the ORIGINAL route (not a copy of any kind)
                try:
                    OPS[op](oo)
                    dd = canon.diff(canon.snapshot(oo, with_xyzr=True), canon.snapshot(cc, with_xyzr=True))
                    if dd:
                        viol("behaviour_differs_after_copy", how, f"{op} on the copy differs from {op} on the original at {dd[:4]}", op=op.split("_")[0])
                except Exception:
                    viol("behaviour_differs_after_copy", how, f"{op} works on the copy but raises on the original", op=op.split("_")[0])
            h1 = canon.hash_of(canon.snapshot(m, with_xyzr=True))
            out["cover"].append("copy_edited_original_unchanged")
            if op.startswith("x_"):
                out["cover"].append("coordinates_edited_on_copy")
            if h1 != h0:
                d = canon.diff(snap, canon.snapshot(m, with_xyzr=True))
                viol("copy_not_independent", how, f"editing the copy with {op} changed the original at {d[:4]}", op=op.split("_")[0])
                m = explorer.replay(mod, init, hist)  # restore for the remaining ops
    if do_views:  # (thorough tier: states of depth <= 1; the depth-2 states get the module copies and the alphabet on the copies)
        try:
            check_views(explorer.replay(mod, init, hist), init, hist, out, viol)
        except Exception as e:
            viol("view_copy_raised", "harness", f"{type(e).__name__}: {str(e)[:200]}")
        try:
            check_after_original_died(init, hist, snap, sim0 if sim_err is None else None, out, viol)
        except Exception as e:
            viol("copy_raised", "original_dead", f"{type(e).__name__}: {str(e)[:200]}")
    out["sample"] = wit
    return out


_CHILD = r"""
import json, pickle, sys
sys.path.insert(0, sys.argv[3])
from vf import env
env.setup()
import numpy as np
from vf import canon
from vf.checks import c18
m = pickle.load(open(sys.argv[1], "rb"))
res = {"hash": canon.hash_of(canon.snapshot(m, with_xyzr=True))}
try:
    res["sim"] = np.asarray(c18._integrate(m)).tolist()
except Exception as e:
    res["sim"] = "raise:" + type(e).__name__
ops = json.loads(sys.argv[2])
res["ops"] = {}
for op in ops:
    mm = pickle.load(open(sys.argv[1], "rb"))
    try:
        c18.OPS[op](mm)
        res["ops"][op] = canon.hash_of(canon.snapshot(mm))
    except Exception as e:
        res["ops"][op] = "raise:" + type(e).__name__
print("RESULT " + json.dumps(res))
"""


def fresh_process(item):
    """save in this process, load in a fresh interpreter (the FAQ's save/load): tables, simulation and set_ncomp on the loaded
    module must equal those of the module in the saving process."""
    import json
    import subprocess
    import sys

    mod = sys.modules[__name__]
    init, hist = item["init"], item["hist"]
    out = {"violations": [], "cover": [], "refusals": [], "digests": [], "evals": 1, "transitions": 0}
    wit = {"init": init, "history": list(hist), "copy": "pickle_fresh_process"}

    def viol(rule, msg, **extra):
        sig = {"rule": rule, "copy": "pickle_fresh_process"}
        sig.update(extra)
        out["violations"].append({"sig": sig, "witness": wit, "msg": msg})

    m = explorer.replay(mod, init, hist)
    want_hash = canon.hash_of(canon.snapshot(m, with_xyzr=True))
    try:
        want_sim = np.asarray(_integrate(m)).tolist()
    except Exception as e:
        want_sim = "raise:" + type(e).__name__
    ops = [op for op in explorer.ops_for(mod, init) if "ncomp" in op][:3]
    want_ops = {}
    for op in ops:
        mm = explorer.replay(mod, init, hist)
        try:
            OPS[op](mm)
            want_ops[op] = canon.hash_of(canon.snapshot(mm))
        except Exception as e:
            want_ops[op] = "raise:" + type(e).__name__
    fd, path = tempfile.mkstemp(suffix=".pkl")
    try:
        with os.fdopen(fd, "wb") as f:
            pickle.dump(m, f)
        root = os.path.dirname(os.path.dirname(os.path.dirname(os.path.abspath(__file__))))
        pr = subprocess.run([sys.executable, "-B", "-c", _CHILD, path, json.dumps(ops), root], capture_output=True, text=True, timeout=900,
                            cwd=root)
    finally:
        os.unlink(path)
    line = [l for l in pr.stdout.splitlines() if l.startswith("RESULT ")]
    if not line:
        viol("copy_raised", f"loading the pickle in a fresh process failed: {pr.stderr[-300:]}")
        return out
    got = json.loads(line[0][7:])
    out["cover"].append("pickle_loaded_in_fresh_process")
    if got["hash"] != want_hash:
        viol("tables_differ", "module loaded in a fresh process has different tables", where="fresh_process")
    if got["sim"] != want_sim:
        viol("simulation_differs", "module loaded in a fresh process simulates differently")
    for op in ops:
        if got["ops"].get(op) != want_ops[op]:
            viol("behaviour_differs_after_copy", f"{op} on the module loaded in a fresh process gives a different module than {op} in the saving process", op=op.split("_")[0])
    out["digests"].append(digest([init, list(hist), "fresh_process", got["hash"]]))
    out["sample"] = wit
    return out


def roundtrip(item):
    res = {"violations": [], "cover": [], "refusals": [], "digests": [], "evals": 0, "transitions": 0}
    for st in item["states"]:
        r = check_state(st["init"], st["hist"], st["sim"], st["grad"], st.get("xcmp", True), st.get("views", True))
        for k in ("violations", "cover", "refusals", "digests"):
            res[k] += r[k]
        res["evals"] += r["evals"]
        res["transitions"] += r["transitions"]
    res["sample"] = item["states"][0]
    return res


def explore(ctx):
    import sys

    mod = sys.modules[__name__]
    depth = 1 if ctx.tier == "quick" else 2
    ctx.note("depth", depth)
    seen = explorer.bfs(ctx, mod, list(INITS), depth, sim_depth=-1, expand_chunk=12)
    states = []
    for (init, h), (_, hist) in sorted(seen.items(), key=lambda kv: (len(kv[1][1]), kv[0][0], kv[1][1])):
        sim = ctx.tier != "quick" or len(hist) <= 1
        grad = len(hist) == 0 or (ctx.tier != "quick" and len(hist) == 1 and "train" in hist[0])
        xcmp = len(hist) == 0 if ctx.tier == "quick" else len(hist) <= 1
        states.append({"init": init, "hist": hist, "sim": sim, "grad": grad, "xcmp": xcmp, "views": len(hist) <= 1})
    ctx.note("states_checked", len(states))
    items = [{"states": states[i:i + 2]} for i in range(0, len(states), 2)]
    ctx.map("roundtrip", items)
    # save here, load in a fresh interpreter: every initial state, plus (thorough) every depth-1 state of the SWC cell
    fresh = [{"init": st["init"], "hist": st["hist"]} for st in states
             if len(st["hist"]) == 0 or (ctx.tier != "quick" and st["init"] == "swc_cell" and len(st["hist"]) == 1)]
    ctx.note("states_loaded_in_fresh_process", len(fresh))
    ctx.map("fresh_process", fresh)


def replay(w):
    if w.get("copy") == "pickle_fresh_process":
        return fresh_process({"init": w["init"], "hist": w["history"]})["violations"]
    r = check_state(w["init"], w["history"], True, True)
    return [v for v in r["violations"] if v["witness"].get("copy") == w.get("copy")]
