"""C04 -- built-in mechanisms implement their published kinetics and currents; renaming changes only names.

Bounded-exhaustive over the voltage alphabet of [-150, 100] (dyadic lattice containing every singular voltage, every
float64/float32 within +-64 ulp of each special point), the gate-state alphabet (all combinations per mechanism), the
parameter alphabets, every mechanism and every change_name prefix kind (and every ordered pair of prefixes).
The REAL `*_gate`, `update_states`, `compute_current`, `change_name` are driven; the oracle is vf.refkin (typed from the
publications), compared on observables.
"""
from __future__ import annotations

import itertools

import numpy as np

from vf import kinlattice as kl
from vf import refkin
from vf.runner import digest

ID = "C04"
LEVEL = "exploration"
RULE = (
    "enumerate every mechanism x kinetic parameter setting x every voltage of the alphabet over [-150,100] (dyadic lattice "
    "2^-4 quick / 2^-10 thorough + all float64/float32 within 64 ulp of singular voltages, clip thresholds, interval ends): "
    "steady state and one-step propagator exp(-dt/tau) for every dt of the alphabet, observed (a) through the real *_gate "
    "functions and (b) black-box through the real update_states from states 0 and 1, against the published equations; "
    "currents for every combination of gate-state alphabet values x conductance/reversal/shift valuations; default tables; "
    "change_name for every prefix kind and every ordered pair of prefixes, on the default instance and on an instance whose "
    "stored parameter/state values were all changed to distinct non-default values (keys, values carried unchanged to "
    "the mapped keys, and bitwise identical dynamics/currents under the key map); the numpy route: init_state / update_states / "
    "compute_current called in sequence on the SAME writable numpy voltage and state arrays with Python-float and numpy parameters must "
    "leave the caller's arrays untouched and agree with the jax-array route; distinct = (mechanism, gate, parameter setting, route, observable, regime bucket) resp. "
    "(mechanism, valuation, state combination) resp. (mechanism, prefix chain)"
)
RATE_GATES = [(m, g) for m in refkin.CHANNELS + ["IonotropicSynapse"] for g in refkin.MECHS[m]["gates"]]
DEFAULT_MECHS = ["HH", "Leak", "Na", "K", "Km", "CaL", "CaT", "IonotropicSynapse"]
CURRENT_MECHS = ["HH", "Leak", "Na", "K", "Km", "CaL", "CaT", "IonotropicSynapse"]
PREFIX_KINDS = ["single_letter", "alnum", "underscore", "own_name", "shared_key_prefix", "constructor_name", "chain",
                "customised_values"]
REQUIRED_COVER = (
    [f"rate:{m}.{g}" for m, g in RATE_GATES]
    + [f"defaults:{m}" for m in DEFAULT_MECHS]
    + [f"rename:{k}" for k in PREFIX_KINDS]
    + [f"current:{m}" for m in CURRENT_MECHS]
    + ["singular_voltage_exact", "exp_clip_regime", "numpy_route", "numpy_arrays_reused_across_calls"]
)
ASSUMPTIONS = [
    "kinetics are compared on observables (steady state abs 1e-6; propagator exp(-dt/tau) abs 1e-6 for dt in the "
    "alphabet), not on alpha/beta separately: far-tail effects of the exp clip (< 2e-9 on observables) are not flagged",
    "currents: |I - I_ref| <= 1e-9 * sum of |additive terms| (relative to the gross current, so that cancellation "
    "between HH's three terms is not penalised)",
    "'documented default parameters': HH = NEURON hh.mod; IonotropicSynapse = class documentation; Pospischil channels = "
    "the values documented in jaxley's classes (the paper lists per-cell-type values; these are its RS-cell style values: "
    "gLeak 1e-4, ELeak -70, gNa 0.05, gK 0.005, gM 4e-6, taumax 4000, gCaL 1e-4, gCaT 4e-5, vx 2, ENa 50, EK -90, ECa 120, "
    "VT -60) typed by hand into vf.refkin",
    "gate functions are interpreted in the form of the publication: (alpha, beta) for HH, Na, K, CaL; (x_inf, tau) for "
    "Km, CaT",
    "float64 voltages between lattice points are visited only within 64 ulp of special points",
    "renaming: default initial state values (0.2) and `current_name` are not part of the property",
    "TanhRateSynapse and TestSynapse take part in the renaming rules and (TestSynapse) in the rate rules; no publication "
    "is claimed for them",
]

LO, HI = -150.0, 100.0
TOL_OBS = 1e-6
TOL_CUR = 1e-9

G_ALPHABET = [1e-5, 0.12]
# second value for every reversal / shift parameter (dyadic, generic)
ALT = {"eNa": 41.25, "eK": -100.5, "eLeak": -61.75, "eCa": 131.5, "e_syn": -80.25, "vx": 0.0}
CUR_PARAMS = {
    "HH": ["gNa", "gK", "gLeak", "eNa", "eK", "eLeak"],
    "Leak": ["gLeak", "eLeak"],
    "Na": ["gNa", "eNa"],
    "K": ["gK", "eK"],
    "Km": ["gKm", "eK"],
    "CaL": ["gCaL", "eCa"],
    "CaT": ["gCaT", "vx", "eCa"],
    "IonotropicSynapse": ["gS", "e_syn"],
    "TestSynapse": ["gC"],
}


def prefixes(mech):
    """(kind, prefix) for every prefix kind of the property."""
    return [("single_letter", "X"), ("alnum", "HH2"), ("underscore", "a_b"), ("own_name", mech),
            ("shared_key_prefix", "e"), ("shared_key_prefix", "v")]


# ----------------------------------------------------------------------------- enumeration
def _items(tier):
    items = []
    for mech in refkin.CHANNELS + refkin.SYNAPSES:
        if refkin.MECHS[mech]["gates"]:
            for p in refkin.psets(mech):
                items.append({"kind": "rate", "mech": mech, "p": p, "tier": tier})
    for mech in CURRENT_MECHS + ["TestSynapse"]:
        names = CUR_PARAMS[mech]
        alph = [G_ALPHABET if n.startswith("g") else [refkin.defaults(mech)[n], ALT[n]] for n in names]
        for vals in itertools.product(*alph):
            items.append({"kind": "current", "mech": mech, "val": dict(zip(names, vals)), "tier": tier})
    for mech in DEFAULT_MECHS:
        items.append({"kind": "defaults", "mech": mech})
    for mech in refkin.CHANNELS + refkin.SYNAPSES + ["TanhRateSynapse"]:
        items.append({"kind": "rename", "mech": mech, "tier": tier})
    for mech in refkin.CHANNELS + refkin.SYNAPSES:
        items.append({"kind": "numpy_route", "mech": mech})
    return items


def explore(ctx):
    items = _items(ctx.tier)
    ctx.note("items", len(items))
    ctx.note("voltage_interval", [LO, HI])
    ctx.note("lattice_step", f"2^-{kl.log2step(ctx.tier)}")
    ctx.note("dt_alphabet", kl.DT_ALPHABET)
    ctx.note("state_alphabet", kl.STATE_ALPHABET)
    ctx.note("parameter_alphabets", {"kinetic": refkin.KIN_ALPHABET, "g": G_ALPHABET, "alt_reversal_shift": ALT})
    ctx.note("tolerances", {"steady_state_abs": TOL_OBS, "propagator_abs": TOL_OBS, "current_rel": TOL_CUR})
    ctx.map("work", items)


def _new_out():
    return {"evals": 0, "digests": [], "cover": [], "refusals": [], "violations": []}


def _viol(sig, wit, msg):
    return {"sig": sig, "witness": wit, "msg": msg}


# ----------------------------------------------------------------------------- rates
def check_rates(mech, p, v, out, dts=None, gates=None, routes=("gate_fn", "update"), max_wit=2):
    dts = list(dts or kl.DT_ALPHABET)
    inst = kl.instance(mech)
    prefix = inst._name
    skeys = refkin.state_keys(mech, prefix)
    N = len(v)
    v = np.asarray(v, dtype=np.float64)
    all_gates = refkin.MECHS[mech]["gates"]
    gates = list(gates or all_gates)
    ref = {}
    with np.errstate(all="ignore"):
        for g in gates:
            xi, tau = refkin.inf_tau(mech, g, v, p)
            ref[g] = (xi, tau, kl.regimes(mech, g, v, p, kl.BAND64))
    for g, vs in refkin.singular_voltages(mech, p).items():
        if any(np.any(v == x) for x in vs):
            out["cover"].append("singular_voltage_exact")

    obs = {}  # (route, gate) -> {"inf": arr, dt: propagator arr}
    if "gate_fn" in routes and not kl.is_synapse(mech):
        for g in gates:
            try:
                a, b = kl.run_gate(inst, mech, g, v, p)
            except Exception as e:
                out["violations"].append(_viol(
                    {"rule": "raises", "mech": mech, "gate": g, "route": "gate_fn", "exc": type(e).__name__},
                    {"kind": "rate", "mech": mech, "p": p, "gate": g, "route": "gate_fn", "v": kl.fnum(v[0]), "dt": dts[0]},
                    f"{mech}.{g}_gate raised {type(e).__name__}: {e}"[:300]))
                continue
            out["evals"] += N
            with np.errstate(all="ignore"):
                if refkin.GATE_FORM[(mech, g)] == "ab":
                    xi_o, tau_o = a / (a + b), 1.0 / (a + b)
                else:
                    xi_o, tau_o = a, b
                o = {"inf": xi_o}
                for dt in dts:
                    o[dt] = np.exp(-dt / tau_o)
            obs[("gate_fn", g)] = o
    if "update" in routes:
        params = kl.full_params(mech, prefix, p, 2 * N, np.float64)
        vv = np.tile(v, 2)
        xx = np.repeat(np.asarray([0.0, 1.0]), N)
        o_all = {g: {} for g in gates}
        for dt in sorted(set(dts + [1e3])):
            try:
                got = kl.run_update(inst, {k: xx for k in skeys.values()}, dt, vv, params)
            except Exception as e:
                out["violations"].append(_viol(
                    {"rule": "raises", "mech": mech, "gate": "", "route": "update", "exc": type(e).__name__},
                    {"kind": "rate", "mech": mech, "p": p, "gate": gates[0], "route": "update", "v": kl.fnum(v[0]), "dt": dt},
                    f"{mech}.update_states raised {type(e).__name__}: {e}"[:300]))
                continue
            out["evals"] += 2 * N * len(all_gates)
            for g in gates:
                new = np.asarray(got[skeys[g]], dtype=np.float64).reshape(2, N)
                e_obs = new[1] - new[0]
                if dt in dts:
                    o_all[g][dt] = e_obs
                if dt == 1e3:
                    with np.errstate(all="ignore"):
                        xi_o = new[0] / (1.0 - e_obs)
                    # only where the reference says 1 - e is well away from 0 (always true for the built-in taus)
                    e_ref = np.exp(-dt / ref[g][1])
                    o_all[g]["inf"] = np.where(1.0 - e_ref > 0.1, xi_o, ref[g][0])
        for g in gates:
            if o_all[g]:
                obs[("update", g)] = o_all[g]

    found = {}  # (gate, rule, regime) -> {route: [violations]}
    for (route, g), o in obs.items():
        xi, tau, reg = ref[g]
        if np.any(reg == 1):
            out["cover"].append("exp_clip_regime")
        with np.errstate(all="ignore"):
            want = {"inf": xi}
            for dt in dts:
                want[dt] = np.exp(-dt / tau)
        compared = 0
        for name, arr in o.items():
            w = want[name]
            rule = "steady_state" if name == "inf" else "propagator"
            fin = np.isfinite(arr)
            err = np.abs(np.where(fin, arr, 0.0) - w)
            for rl, mask in (("finite", ~fin), (rule, fin & ~(err <= TOL_OBS))):
                if not mask.any():
                    continue
                for rg in np.unique(reg[mask]):
                    m = mask & (reg == rg)
                    idx = np.nonzero(m)[0]
                    em = np.where(m, np.where(np.isfinite(err), err, np.inf), -1.0)
                    for vi in list(dict.fromkeys([int(idx[0]), int(np.argmax(em))]))[:max_wit]:
                        found.setdefault((g, rl, int(rg)), {}).setdefault(route, []).append((
                            {"kind": "rate", "mech": mech, "p": p, "gate": g, "v": kl.fnum(v[vi]),
                             "dt": (1e3 if name == "inf" else name)},
                            f"{mech}.{g} v={float(v[vi])!r} p={p} {rule}"
                            f"{'' if name == 'inf' else f' dt={name}'}: observed {float(arr[vi])!r}, published {float(w[vi])!r} "
                            f"(x_inf={float(xi[vi])!r}, tau={float(tau[vi])!r}); {int(m.sum())} of {N} voltages of this item"))
            compared += 1
            for rg in np.unique(reg):
                sel = reg == rg
                if np.ptp(w[sel]) > 0 or sel.sum() == 1:
                    out["digests"].append(digest([mech, g, p, route, str(name), int(rg)]))
        if compared:
            out["cover"].append(f"rate:{mech}.{g}")
    # a failure seen through both routes (the gate function itself is off) gets ONE signature
    for (g, rl, rg), by_route in found.items():
        route = "+".join(sorted(by_route))
        for wit, msg in by_route[sorted(by_route)[-1]]:
            out["violations"].append(_viol(
                {"rule": rl, "mech": mech, "gate": g, "route": route, "regime": kl.REGIME_NAMES[rg]},
                dict(wit, route=route), f"[{route}] {msg}"))


# ----------------------------------------------------------------------------- currents
def state_combos(mech):
    gates = refkin.MECHS[mech]["gates"]
    return [dict(zip(gates, c)) for c in itertools.product(kl.STATE_ALPHABET, repeat=len(gates))]


def check_current(mech, val, v, out, combos=None, max_wit=2):
    inst = kl.instance(mech)
    prefix = inst._name
    skeys = refkin.state_keys(mech, prefix)
    v = np.asarray(v, dtype=np.float64)
    N = len(v)
    combos = combos if combos is not None else state_combos(mech)
    p = refkin.defaults(mech)
    p.update(val)
    C = len(combos)
    vv = np.tile(v, C)
    st_local = {g: np.repeat(np.asarray([c[g] for c in combos], dtype=np.float64), N) for g in refkin.MECHS[mech]["gates"]}
    params = kl.full_params(mech, prefix, {}, N * C, np.float64, overrides=val)
    try:
        got = kl.run_current(inst, {skeys[g]: a for g, a in st_local.items()}, vv, params,
                             v_pre=np.full(N * C, -33.5) if kl.is_synapse(mech) else None)
    except Exception as e:
        out["violations"].append(_viol(
            {"rule": "raises", "mech": mech, "call": "compute_current", "exc": type(e).__name__},
            {"kind": "current", "mech": mech, "val": val, "v": kl.fnum(v[0]), "states": combos[0]},
            f"{mech}.compute_current raised {type(e).__name__}: {e}"[:300]))
        return
    out["evals"] += N * C
    got = np.broadcast_to(np.asarray(got, dtype=np.float64), (N * C,))
    with np.errstate(all="ignore"):
        terms = refkin.current_terms(mech, st_local, vv, p)
    want = sum(terms)
    gross = sum(np.abs(t) for t in terms)
    fin = np.isfinite(got)
    err = np.abs(np.where(fin, got, 0.0) - want)
    bad = ~fin | ~(err <= TOL_CUR * gross + 1e-300)
    if bad.any():
        idx = np.nonzero(bad)[0]
        rel = np.where(bad, err / (gross + 1e-300), -1.0)
        for i in list(dict.fromkeys([int(idx[0]), int(np.argmax(rel))]))[:max_wit]:
            ci = i // N
            out["violations"].append(_viol(
                {"rule": "current", "mech": mech, "finite": bool(fin[i])},
                {"kind": "current", "mech": mech, "val": val, "v": kl.fnum(vv[i]), "states": combos[ci]},
                f"{mech}.compute_current v={float(vv[i])!r} states={combos[ci]} params={p}: observed {float(got[i])!r} "
                f"published {float(want[i])!r} (units: {'nA, g in uS' if kl.is_synapse(mech) else 'mA/cm2, g in S/cm2'}); "
                f"{int(bad.sum())} of {N * C} elements"))
    nz = (np.abs(want) > 0).reshape(C, N).any(axis=1)
    for ci in np.nonzero(nz)[0]:
        out["digests"].append(digest([mech, "current", val, combos[int(ci)]]))
    out["cover"].append(f"current:{mech}")


# ----------------------------------------------------------------------------- defaults
def check_defaults(mech, out):
    inst = kl.instance(mech, fresh=True)
    out["evals"] += 1
    syn = kl.is_synapse(mech)
    got = dict(inst.synapse_params if syn else inst.channel_params)
    name = inst._name
    want = {refkin.key_of(mech, mech, n): d for n, _, d in refkin.MECHS[mech]["params"]}
    problems = []
    if name != mech:
        problems.append(f"default name {name!r} != {mech!r}")
    for k in sorted(set(got) | set(want)):
        if k not in got:
            problems.append(f"missing parameter {k}")
        elif k not in want:
            problems.append(f"undocumented parameter {k}={got[k]!r}")
        elif not (isinstance(got[k], (int, float)) and float(got[k]) == want[k]):
            problems.append(f"{k}={got[k]!r}, documented {want[k]!r}")
    st = dict(inst.synapse_states if syn else inst.channel_states)
    wst = set(refkin.state_keys(mech, mech).values())
    if set(st) != wst:
        problems.append(f"states {sorted(st)} != {sorted(wst)}")
    if not syn and getattr(inst, "current_is_in_mA_per_cm2", None) is not True:
        problems.append("current_is_in_mA_per_cm2 is not True")
    for pr in problems:
        out["violations"].append(_viol({"rule": "defaults", "mech": mech, "what": pr.split("=")[0].split(" ")[0]},
                                       {"kind": "defaults", "mech": mech}, f"{mech} defaults: {pr}"))
    out["digests"].append(digest([mech, "defaults", sorted(want.items())]))
    out["cover"].append(f"defaults:{mech}")


# ----------------------------------------------------------------------------- caller's arrays (numpy route)
NP_VOLTAGES = [-95.0, -80.0, -70.0, -63.0, -55.0, -47.5, -40.0, -31.0, -27.0, -20.0, -10.0, 0.0, 12.5, 30.0, 55.0, 110.0]


def check_numpy_route(mech, out):
    """The public mechanism API called the way a user explores kinetics: writable numpy voltage/state arrays and Python-float (or
    numpy) parameters, the SAME arrays handed to several calls in a row.  Every call must leave its inputs untouched and return
    what the jax-array route returns (which the other items judge against the published formulas)."""
    import jax.numpy as jnp

    inst = kl.instance(mech, fresh=True)
    syn = kl.is_synapse(mech)
    n = len(NP_VOLTAGES)
    v0 = np.asarray(NP_VOLTAGES, dtype=np.float64)
    pkeys = refkin.param_keys(mech, mech)
    defaults = refkin.defaults(mech)
    skeys = refkin.state_keys(mech, mech)
    dt = 0.025
    for pform in ("python_float", "numpy_array"):
        params_np = {pkeys[k]: (float(val) if pform == "python_float" else np.full(n, val, dtype=np.float64)) for k, val in defaults.items()}
        states_np = {k: np.full(n, 0.3, dtype=np.float64) for k in skeys.values()}
        params_j = {k: jnp.full(n, float(np.asarray(a).reshape(-1)[0])) for k, a in params_np.items()}
        states_j = {k: jnp.asarray(a) for k, a in states_np.items()}
        vj = jnp.asarray(v0)
        v = v0.copy()  # the one array every call of the sequence receives
        calls = []
        if not syn:
            calls.append(("init_state", lambda: inst.init_state(states_np, v, params_np, dt), lambda: inst.init_state(states_j, vj, params_j, dt)))
            calls.append(("update_states", lambda: inst.update_states(states_np, dt, v, params_np), lambda: inst.update_states(states_j, dt, vj, params_j)))
            calls.append(("compute_current", lambda: inst.compute_current(states_np, v, params_np), lambda: inst.compute_current(states_j, vj, params_j)))
            calls.append(("update_states", calls[1][1], calls[1][2]))
            calls.append(("init_state", calls[0][1], calls[0][2]))
        else:
            calls.append(("update_states", lambda: inst.update_states(states_np, dt, v, v, params_np), lambda: inst.update_states(states_j, dt, vj, vj, params_j)))
            calls.append(("compute_current", lambda: inst.compute_current(states_np, v, v, params_np), lambda: inst.compute_current(states_j, vj, vj, params_j)))
            calls.append(("update_states", calls[0][1], calls[0][2]))
        for pos, (cname, f_np, f_j) in enumerate(calls):
            out["evals"] += 1
            wit = {"kind": "numpy_route", "mech": mech, "params_as": pform, "call": cname, "position": pos}
            try:
                got = f_np()
            except Exception as e:
                out["refusals"].append(f"numpy_inputs:{mech}:{cname}:{type(e).__name__}")
                continue
            want = f_j()
            if not np.array_equal(v, v0):
                bad = int(np.argmax(v != v0))
                out["violations"].append(_viol({"rule": "caller_array_mutated", "mech": mech, "call": cname, "what": "voltage"}, wit,
                                               f"{mech}.{cname} changed the caller's voltage array: {v0[bad]} -> {v[bad]}"))
                v = v0.copy()
                continue
            if any(not np.array_equal(a, 0.3 * np.ones(n)) for a in states_np.values()):
                out["violations"].append(_viol({"rule": "caller_array_mutated", "mech": mech, "call": cname, "what": "states"}, wit,
                                               f"{mech}.{cname} changed the caller's state arrays"))
                states_np = {k: np.full(n, 0.3, dtype=np.float64) for k in skeys.values()}
                continue
            gd = got if isinstance(got, dict) else {"current": got}
            wd = want if isinstance(want, dict) else {"current": want}
            for k in wd:
                a = np.broadcast_to(np.asarray(gd.get(k, np.nan), dtype=np.float64), (n,))
                b = np.broadcast_to(np.asarray(wd[k], dtype=np.float64), (n,))
                err = np.abs(a - b) / (1e-300 + np.maximum(np.abs(b), 1e-12))
                ok = (err <= 1e-9) | (np.isnan(a) & np.isnan(b))
                if not ok.all():
                    j = int(np.argmin(ok))
                    out["violations"].append(_viol({"rule": "numpy_route_differs", "mech": mech, "call": cname, "first_call": pos == 0}, dict(wit, v=float(v0[j])),
                                                   f"{mech}.{cname} (call #{pos} on the same numpy arrays, params as {pform}) {k} at v={v0[j]}: {a[j]} vs {b[j]} through jax arrays"))
                    break
            else:
                out["digests"].append(digest([mech, cname, pos, pform]))
                out["cover"].append("numpy_route")
                if pos > 0:
                    out["cover"].append("numpy_arrays_reused_across_calls")


# ----------------------------------------------------------------------------- renaming
def _tables(inst):
    syn = kl.isinstance_syn(inst)
    return (dict(inst.synapse_params if syn else inst.channel_params),
            dict(inst.synapse_states if syn else inst.channel_states))


def customise(inst, mech):
    """Give EVERY parameter and state stored in the instance a distinct non-default value (also the shared unprefixed
    ones: vt, eNa, eK, eCa), as a user would (`hh.channel_params["HH_gNa"] = 0.2`).  Returns (params, states) keyed by
    LOCAL names.  Values keep their sign/positivity (conductances, taumax, k_minus, slope stay positive)."""
    syn = kl.isinstance_syn(inst)
    ptab = inst.synapse_params if syn else inst.channel_params
    stab = inst.synapse_states if syn else inst.channel_states
    name = inst._name
    pvals, svals = {}, {}
    for i, (n, shared, d) in enumerate(refkin.MECHS[mech]["params"]):
        val = d * (1.5 + 0.25 * i) if (n.startswith("g") or n in ("taumax", "k_minus", "slope")) else d + 1.5 + 0.25 * i
        key = n if shared else f"{name}_{n}"
        ptab[key] = val
        pvals[n] = val
    for j, g in enumerate(refkin.MECHS[mech]["gates"]):
        val = 0.3125 + 0.0625 * j
        stab[f"{name}_{g}"] = val
        svals[g] = val
    return pvals, svals


def _dyn(inst, mech, prefix, v, p, stored=False):
    """Outputs of the real update_states (two dts) and compute_current on the alphabet, keyed by LOCAL names.
    stored=True: parameter values are the ones stored in the instance's own table (as `insert` would take them), and the
    stored initial state values are appended to the state alphabet."""
    gates = refkin.MECHS[mech]["gates"]
    skeys = refkin.state_keys(mech, prefix)
    N = len(v)
    alphabet = list(kl.STATE_ALPHABET)
    if stored:
        ptab, stab = _tables(inst)
        alphabet += [float(x) for x in stab.values()]
    S = len(alphabet)
    vv = np.tile(v, S)
    xx = np.repeat(np.asarray(alphabet, dtype=np.float64), N)
    if stored:
        params = {k: np.full(N * S, float(val), dtype=np.float64) for k, val in ptab.items()}
    else:
        params = kl.full_params(mech, prefix, p, N * S, np.float64)
    res = {}
    for dt in (0.025, 1e3):
        got = kl.run_update(inst, {k: xx for k in skeys.values()}, dt, vv, params, jit=False)
        if set(got) != set(skeys.values()):
            res[("keys", dt)] = sorted(got)
        for g in gates:
            if skeys[g] in got:
                res[("update", dt, g)] = np.asarray(got[skeys[g]])
    res[("current",)] = np.asarray(kl.run_current(inst, {k: xx for k in skeys.values()}, vv, params,
                                                  v_pre=np.full(N * S, -33.5) if kl.is_synapse(mech) else None))
    # steady-state initialisation (channels): which keys come back, mapped to local names, and their values
    if not kl.is_synapse(mech) and hasattr(inst, "init_state"):
        try:
            got = kl.run_init_state(inst, {k: xx for k in skeys.values()}, vv, params)
            local_of = {kk: g for g, kk in skeys.items()}
            res[("init_keys",)] = sorted(local_of.get(k, f"?{k}") for k in got)
            for k, a in got.items():
                if k in local_of:
                    res[("init", local_of[k])] = np.asarray(a)
        except Exception as e:
            res[("init_keys",)] = [f"raised {type(e).__name__}"]
    return res


_BASE_DYN = {}


def _base_dyn(mech, v, p, custom):
    """Outputs of the UN-renamed (default or customised) instance; cached per worker."""
    key = (mech, custom, len(v), float(v[0]), float(v[-1]))
    if key not in _BASE_DYN:
        base = kl.instance(mech, fresh=True)
        if custom:
            customise(base, mech)
        _BASE_DYN[key] = (_dyn(base, mech, base._name, v, p, stored=custom), getattr(base, "current_name", None))
    return _BASE_DYN[key]


def check_rename(mech, chain, v, out, kinds=(), custom=False):
    """chain: list of names applied with change_name in order (first element may be ('ctor', name)).
    custom=True: all values stored in the instance are first changed to distinct non-default values; the chain must carry
    every value, unchanged, to the mapped key."""
    cls_inst = None
    extra = {"instance": "customised"} if custom else {}
    cvals = None
    _viol = (lambda sig, wit, msg: globals()["_viol"](dict(sig, **extra), dict(wit, custom=True), "[customised] " + msg)) \
        if custom else globals()["_viol"]
    try:
        if chain and isinstance(chain[0], (list, tuple)):
            cls_inst = kl.instance(mech, chain[0][1], fresh=True)
            names = [chain[0][1]] + list(chain[1:])
            todo = list(chain[1:])
        else:
            cls_inst = kl.instance(mech, fresh=True)
            names = list(chain)
            todo = list(chain)
        if custom:
            cvals = customise(cls_inst, mech)
        for nm in todo:
            r = cls_inst.change_name(nm)
            if r is not cls_inst:
                out["violations"].append(_viol({"rule": "rename_chainable", "mech": mech},
                                               {"kind": "rename", "mech": mech, "chain": chain},
                                               f"{mech}.change_name({nm!r}) did not return the mechanism"))
    except Exception as e:
        out["violations"].append(_viol({"rule": "raises", "mech": mech, "call": "change_name", "exc": type(e).__name__},
                                       {"kind": "rename", "mech": mech, "chain": chain},
                                       f"{mech} chain {chain}: {type(e).__name__}: {e}"[:300]))
        return
    out["evals"] += 1
    final = names[-1]
    params, states = _tables(cls_inst)
    want_p = {refkin.key_of(mech, final, n): d for n, _, d in refkin.MECHS[mech]["params"]}
    want_s = set(refkin.state_keys(mech, final).values())
    wit = {"kind": "rename", "mech": mech, "chain": chain}
    if custom:
        # every stored value must sit, unchanged (exact), under the mapped key
        want_pv = {refkin.key_of(mech, final, n): val for n, val in cvals[0].items()}
        want_sv = {f"{final}_{g}": val for g, val in cvals[1].items()}
        lost_p = {k: (params.get(k), val) for k, val in want_pv.items() if not (k in params and params[k] == val)}
        lost_s = {k: (states.get(k), val) for k, val in want_sv.items() if not (k in states and states[k] == val)}
        if lost_p:
            shared = {n for n, sh, _ in refkin.MECHS[mech]["params"] if sh}
            what = "shared_param_values" if set(lost_p) <= shared else "param_values"
            out["violations"].append(_viol({"rule": "rename_values", "mech": mech, "what": what}, wit,
                                           f"{mech} chain {chain}: stored parameter values changed by renaming "
                                           f"(key: (now, before)): {lost_p}"))
        if lost_s:
            out["violations"].append(_viol({"rule": "rename_values", "mech": mech, "what": "state_values"}, wit,
                                           f"{mech} chain {chain}: stored initial state values changed by renaming "
                                           f"(key: (now, before)): {lost_s}"))
        want_p = want_pv  # the key rule below then also compares the key set/order (values already reported above)
        if set(params) == set(want_p) and list(params) == list(want_p):
            params = want_p
    if cls_inst._name != final or cls_inst.name != final:
        out["violations"].append(_viol({"rule": "rename_name", "mech": mech}, wit,
                                       f"{mech} chain {chain}: name is {cls_inst._name!r}, expected {final!r}"))
    if params != want_p or list(params) != list(want_p):
        shared = [n for n, s, _ in refkin.MECHS[mech]["params"] if s]
        what = "shared_key_changed" if any(k not in params for k in shared) else "param_keys"
        out["violations"].append(_viol({"rule": "rename_keys", "mech": mech, "what": what}, wit,
                                       f"{mech} chain {chain}: params {params}, expected {want_p}"))
    if set(states) != want_s:
        out["violations"].append(_viol({"rule": "rename_keys", "mech": mech, "what": "state_keys"}, wit,
                                       f"{mech} chain {chain}: states {sorted(states)}, expected {sorted(want_s)}"))
    # dynamics and currents identical under the key map (bitwise, NaN == NaN)
    p = refkin.psets(mech)[-1]
    try:
        a, base_cur = _base_dyn(mech, np.asarray(v, dtype=np.float64), p, custom)
        b = _dyn(cls_inst, mech, final, v, p, stored=custom)
    except Exception as e:
        out["violations"].append(_viol({"rule": "rename_dynamics", "mech": mech, "exc": type(e).__name__}, wit,
                                       f"{mech} chain {chain}: kernels with renamed keys raised {type(e).__name__}: {e}"[:300]))
        return
    out["evals"] += 3 * len(v) * len(kl.STATE_ALPHABET)
    for k in a:
        same = k in b and (np.array_equal(a[k], b[k], equal_nan=True) if isinstance(a[k], np.ndarray) else (a[k] == b[k] or k[0] == "keys"))
        if k[0] == "keys" or not same:
            out["violations"].append(_viol({"rule": "rename_dynamics", "mech": mech, "what": k[0]}, wit,
                                           f"{mech} chain {chain}: {k} differs from the unrenamed mechanism"))
    for k in b:
        if k[0] == "keys":
            out["violations"].append(_viol({"rule": "rename_dynamics", "mech": mech, "what": "keys"}, wit,
                                           f"{mech} chain {chain}: update_states returned {b[k]}"))
    if custom:
        # current_name follows the same rule as for the default instance put through the same chain
        try:
            ref_inst = kl.instance(mech, chain[0][1], fresh=True) if chain and isinstance(chain[0], (list, tuple)) \
                else kl.instance(mech, fresh=True)
            for nm in (chain[1:] if chain and isinstance(chain[0], (list, tuple)) else chain):
                ref_inst.change_name(nm)
            if getattr(ref_inst, "current_name", None) != getattr(cls_inst, "current_name", None):
                out["violations"].append(_viol({"rule": "rename_current_name", "mech": mech}, wit,
                                               f"{mech} chain {chain}: current_name {getattr(cls_inst, 'current_name', None)!r} "
                                               f"differs from the default instance's {getattr(ref_inst, 'current_name', None)!r}"))
        except Exception:
            pass
        out["cover"].append("rename:customised_values")
    out["digests"].append(digest([mech, "rename", chain, custom]))
    for kd in kinds:
        out["cover"].append(f"rename:{kd}")


def rename_chains(mech):
    pf = prefixes(mech)
    chains = [([n], [k]) for k, n in pf]
    chains += [([["ctor", n]], ["constructor_name"]) for _, n in pf]
    chains += [([["ctor", a], b], ["constructor_name", "chain"]) for _, a in pf for _, b in pf]
    chains += [([a, b], ["chain"]) for _, a in pf for _, b in pf]
    chains += [([a, b, mech], ["chain"]) for _, a in pf for _, b in pf if a != b]
    return chains


def rename_voltages(mech, tier):
    p = refkin.psets(mech)[-1]
    return kl.voltages64(mech, p, LO, HI, "quick")


# ----------------------------------------------------------------------------- work / replay
def work(item):
    out = _new_out()
    mech = item["mech"]
    k = item["kind"]
    if k == "rate":
        v = kl.voltages64(mech, item["p"], LO, HI, item["tier"])
        check_rates(mech, item["p"], v, out)
        out["sample"] = {"kind": k, "mech": mech, "p": item["p"], "n_voltages": int(len(v))}
    elif k == "current":
        v = kl.voltages64(mech, refkin.psets(mech)[-1] if mech != "CaT" else {"vx": item["val"]["vx"]}, LO, HI,
                          "quick" if mech == "HH" else item["tier"])
        check_current(mech, item["val"], v, out)
    elif k == "defaults":
        check_defaults(mech, out)
    elif k == "numpy_route":
        check_numpy_route(mech, out)
    elif k == "rename":
        v = rename_voltages(mech, item["tier"])
        for chain, kinds in rename_chains(mech):
            check_rename(mech, chain, v, out, kinds)
            check_rename(mech, chain, v, out, kinds, custom=True)
        out["sample"] = {"kind": k, "mech": mech, "chains": len(rename_chains(mech))}
    out["cover"] = sorted(set(out["cover"]))
    out["digests"] = sorted(set(out["digests"]))
    out["violations"] = _thin(out["violations"])
    return out


def _thin(viols, per_sig=3):
    seen, keep = {}, []
    for v in viols:
        k = tuple(sorted((a, str(b)) for a, b in v["sig"].items()))
        seen[k] = seen.get(k, 0) + 1
        if seen[k] <= per_sig:
            keep.append(v)
    return keep


def replay(w):
    out = _new_out()
    k = w["kind"]
    if k == "rate":
        dts = [w["dt"]]
        check_rates(w["mech"], w["p"], np.asarray([w["v"]]), out, dts=dts, gates=[w["gate"]],
                    routes=tuple(w["route"].split("+")))
    elif k == "current":
        check_current(w["mech"], w["val"], np.asarray([w["v"]]), out, combos=[w["states"]])
    elif k == "defaults":
        check_defaults(w["mech"], out)
    elif k == "rename":
        check_rename(w["mech"], w["chain"], rename_voltages(w["mech"], "quick"), out, custom=bool(w.get("custom")))
    elif k == "numpy_route":
        check_numpy_route(w["mech"], out)
    return out["violations"]
