"""C15 — simulations converge to cable theory at the expected order.

Refinement ladders on uniform passive cables and single compartments with closed-form solutions.
"""
from __future__ import annotations

import itertools
from math import cosh, exp, pi, sinh, sqrt

import numpy as np

from vf import build
from vf.runner import digest

ID = "C15"
LEVEL = "exploration"
RULE = (
    "geometry/parameter alphabet radius {0.5,2} x L {0.5,2.5} lambda x r_a {100,1000} x g {1e-4,1e-3} (16 cables); ladders ncomp = 4*2^k "
    "(k=0..4) for the steady-state sealed-cable Green's function (source at the first compartment centre, every compartment centre compared) "
    "on every backend; ladders dt = 0.5/2^k for RC relaxation with bwd_euler/fwd_euler (order 1) and crank_nicolson (order 2); steady state "
    "under constant current I/(gA) for the unit constants; ladders dt = 0.2/2^k for the relaxation of a voltage profile on 4-compartment "
    "cables (one branch / two branches, c_m 1 / 2.5) against the exact solution of the semi-discrete cable, bwd_euler and crank_nicolson on every "
    "backend; distinct = (cable, backend) ladders with decreasing error"
)
REQUIRED_COVER = ["unequal_compartments_at_branch_point", "time_order_on_coupled_cable_cn", "time_order_on_coupled_cable_bwd", "branched_cable_cm_ne_1", "space_order_2", "time_order_1_bwd", "time_order_1_fwd", "time_order_2_cn", "unit_constants", "long_cable", "short_cable",
                  "backend:jaxley.stone", "backend:jaxley.thomas", "backend:jax.sparse"]
ASSUMPTIONS = [
    "a finite refinement ladder is evidence of the limit, not the limit; observed orders must lie within +-0.3 (space) / +-0.1 (time) of the nominal order on the last two rungs "
    "and within +-0.5 (space) / +-0.25 (time) on every earlier rung (the coarsest spatial rung has h <= 0.625 lambda, the coarsest time step dt <= tau/4)",
    "analytic solutions: sealed finite cable Green's function, exponential RC relaxation, V = E + I/(g A)",
]
BACKENDS = ["jaxley.stone", "jaxley.thomas", "jax.sparse"]
E_LEAK = -70.0
I_NA = 0.05


def _lambda_um(r_um, ra, g):
    # lambda^2 = r / (2 r_a g) in cm (r in cm)
    r_cm = r_um * 1e-4
    return sqrt(r_cm / (2.0 * ra * g)) * 1e4


def _cable(n, r, L, ra, g, cm=1.0):
    J = build.jx()
    from jaxley.channels import Leak

    comp = J.Compartment()
    br = J.Branch([comp] * n)
    br.set("radius", r)
    br.set("length", L / n)
    br.set("axial_resistivity", ra)
    br.set("capacitance", cm)
    br.insert(Leak())
    br.set("Leak_gLeak", g)
    br.set("Leak_eLeak", E_LEAK)
    br.set("v", E_LEAK)
    return br


def _cable_as_cell(n_per_branch, nbranches, r, L, ra, g, cm):
    """The same uniform sealed cable built as a Cell of `nbranches` branches in series (branch points are interior
    points of the cable, so the analytic solution is unchanged)."""
    J = build.jx()
    from jaxley.channels import Leak

    comp = J.Compartment()
    br = J.Branch([comp] * n_per_branch)
    cell = J.Cell([br] * nbranches, parents=[-1] + list(range(nbranches - 1)))
    n = n_per_branch * nbranches
    cell.set("radius", r)
    cell.set("length", L / n)
    cell.set("axial_resistivity", ra)
    cell.set("capacitance", cm)
    cell.insert(Leak())
    cell.set("Leak_gLeak", g)
    cell.set("Leak_eLeak", E_LEAK)
    cell.set("v", E_LEAK)
    return cell


UNEVEN = (0.4, 0.6)  # fractions of the cable length carried by the two branches of the "uneven" cable


def _cable_uneven(n_per_branch, r, L, ra, g, cm):
    """The same uniform sealed cable as two branches in series with DIFFERENT compartment lengths (0.4 L and 0.6 L, equally many
    compartments each): the compartments that meet at the branch point differ, so the branch point must weight its neighbours by
    their own axial conductances."""
    J = build.jx()
    from jaxley.channels import Leak

    comp = J.Compartment()
    brs = []
    for frac in UNEVEN:
        b = J.Branch([comp] * n_per_branch)
        b.set("length", frac * L / n_per_branch)
        brs.append(b)
    cell = J.Cell(brs, parents=[-1, 0])
    cell.set("radius", r)
    cell.set("axial_resistivity", ra)
    cell.set("capacitance", cm)
    cell.insert(Leak())
    cell.set("Leak_gLeak", g)
    cell.set("Leak_eLeak", E_LEAK)
    cell.set("v", E_LEAK)
    return cell


def _green(x, x0, L, lam, r_um, ra, g):
    """Steady-state depolarisation (mV) at x for I_NA injected at x0 into a sealed cable (all lengths um)."""
    r_cm = r_um * 1e-4
    r_i = ra / (pi * r_cm**2)  # ohm / cm
    r_m = 1.0 / (g * 2 * pi * r_cm)  # ohm cm
    R_inf = sqrt(r_m * r_i)  # ohm
    lo, hi = min(x, x0), max(x, x0)
    val = R_inf * cosh((L - hi) / lam) * cosh(lo / lam) / sinh(L / lam)
    return I_NA * 1e-9 * val * 1e3  # nA * ohm -> V -> mV


def space_ladder(geom, backend, nbranches=1, cm=1.0):
    r, Lrel, ra, g = geom
    lam = _lambda_um(r, ra, g)
    L = Lrel * lam
    errs = []
    peak = None
    for k in range(5):
        n = 4 * 2**k
        if nbranches == "uneven":
            br = _cable_uneven(n // 2, r, L, ra, g, cm)
            h1, h2 = UNEVEN[0] * L / (n // 2), UNEVEN[1] * L / (n // 2)
            xs = np.concatenate([(np.arange(n // 2) + 0.5) * h1, UNEVEN[0] * L + (np.arange(n // 2) + 0.5) * h2])
        else:
            br = _cable(n, r, L, ra, g, cm) if nbranches == 1 else _cable_as_cell(n // nbranches, nbranches, r, L, ra, g, cm)
            h = L / n
            xs = (np.arange(n) + 0.5) * h
        vs, _ = build.eager_step(br, "bwd_euler", backend, 1e9, {"i": np.asarray([I_NA])}, {"i": np.asarray([0])}, nsteps=1)
        sim = np.asarray(vs[1]) - E_LEAK
        ana = np.asarray([_green(x, xs[0], L, lam, r, ra, g) for x in xs])
        errs.append(float(np.max(np.abs(sim - ana))))
        peak = float(np.max(ana))
    return errs, peak


def rc_ladder(scheme, backend, r, Lc, g, cm):
    import jaxley as jx

    tau = cm / g * 1e-3  # ms
    t_end = 4.0
    v0 = -50.0
    errs = []
    for k in range(5):
        dt = 0.5 / 2**k
        nsteps = int(round(t_end / dt))
        c = _cable(1, r, Lc, 500.0, g, cm)
        c.set("v", v0)
        c.record("v", verbose=False)
        out = np.asarray(jx.integrate(c, t_max=(nsteps - 1) * dt + dt / 2, delta_t=dt, solver=scheme, voltage_solver=backend))
        vt = out[0, nsteps]
        ana = E_LEAK + (v0 - E_LEAK) * exp(-t_end / tau)
        errs.append(abs(float(vt) - ana))
    return errs


def cable_time_ladder(scheme, backend, geom, nbranches, cm):
    """Relaxation of a non-uniform initial voltage profile on a 4-compartment cable (one branch, or a 2-branch cell): the error
    against the exact solution of the semi-discrete cable  C dv/dt = -(S + g) v + g E  (eigen-decomposition, numpy; S from the dense SI
    assembly of vf.refphys) must shrink at the scheme's order in dt.  Exercises the time stepping WITH axial coupling."""
    import jaxley as jx
    from vf import refphys

    r, Lrel, ra, g = geom
    lam = _lambda_um(r, ra, g)
    L = Lrel * lam
    n = 4
    v0 = np.asarray([-50.0, -58.0, -66.0, -70.0])
    if nbranches == 1:
        parents, ncomps = [-1], [n]
    else:
        parents, ncomps = [-1, 0], [2, 2]
    ones = np.ones(n)
    C, G, _ = refphys.assemble(parents, ncomps, r * ones, (L / n) * ones, ra * ones, cm * ones)
    S = refphys.reduce_branchpoints(G, n)
    gl = g * refphys.areas_cm2(r * ones, (L / n) * ones) * 1e6  # uS
    Cs = np.sqrt(C[:n])
    Msym = (S + np.diag(gl)) / Cs[:, None] / Cs[None, :]
    w, Q = np.linalg.eigh(Msym)
    t_end = 1.6
    exact = E_LEAK + (Q @ (np.exp(-w * t_end) * (Q.T @ (Cs * (v0 - E_LEAK))))) / Cs
    errs = []
    for k in range(5):
        dt = 0.2 / 2**k
        nsteps = int(round(t_end / dt))
        m = _cable(n, r, L, ra, g, cm) if nbranches == 1 else _cable_as_cell(2, 2, r, L, ra, g, cm)
        m.set("v", v0)
        m.record("v", verbose=False)
        out = np.asarray(jx.integrate(m, t_max=(nsteps - 1) * dt + dt / 2, delta_t=dt, solver=scheme, voltage_solver=backend))
        errs.append(float(np.max(np.abs(out[:, nsteps] - exact))))
    return errs


def orders(errs):
    return [float(np.log2(errs[i] / errs[i + 1])) if errs[i + 1] > 0 else float("inf") for i in range(len(errs) - 1)]


def work(item):
    out = {"violations": [], "cover": [], "refusals": [], "digests": [], "evals": 0}

    def viol(rule, msg, **extra):
        sig = {"rule": rule}
        sig.update(extra)
        out["violations"].append({"sig": sig, "witness": item, "msg": msg})

    if item["part"] == "space":
        geom, backend = tuple(item["geom"]), item["backend"]
        nb, cm = item.get("nbranches", 1), float(item.get("cm", 1.0))
        nb = nb if nb == "uneven" else int(nb)
        try:
            errs, peak = space_ladder(geom, backend, nb, cm)
        except Exception as e:
            viol("raised", f"{type(e).__name__}: {str(e)[:200]}", part="space")
            return out
        out["evals"] += 5
        od = orders(errs)
        out["cover"] += [f"backend:{backend}", "long_cable" if geom[1] > 1 else "short_cable"]
        if nb == "uneven":
            out["cover"].append("unequal_compartments_at_branch_point")
            nb = 2
        if nb > 1 and cm != 1.0:
            out["cover"].append("branched_cable_cm_ne_1")
        # every rung, not only the asymptotic end: the coarse rungs are where "one compartment per branch" and similar
        # boundary sizes live (seeded change S60); on the clean ladders the coarse-rung orders are 1.70..1.97
        ok = all(1.7 <= o <= 2.3 for o in od[-2:]) and all(1.5 <= o <= 2.5 for o in od) and errs[-1] < 2e-3 * peak
        if ok:
            out["cover"].append("space_order_2")
            out["digests"].append(digest([geom, backend, nb, cm]))
        else:
            viol("space_convergence", f"errors {errs} orders {od} peak {peak} (nbranches {nb}, cm {cm})",
                 backend_family="sparse" if backend == "jax.sparse" else "jaxley", branched=nb > 1)
        out["sample"] = dict(item, errors=errs, orders=od)
    elif item["part"] == "time":
        scheme, backend = item["scheme"], item["backend"]
        r, Lc, g, cm = item["params"]
        try:
            errs = rc_ladder(scheme, backend, r, Lc, g, cm)
        except Exception as e:
            if scheme == "fwd_euler" and backend == "jax.sparse":
                out["refusals"].append("fwd_euler:jax.sparse")
                return out
            viol("raised", f"{type(e).__name__}: {str(e)[:200]}", part="time")
            return out
        out["evals"] += 5
        od = orders(errs)
        nominal = 2.0 if scheme == "crank_nicolson" else 1.0
        ok = all(abs(o - nominal) <= 0.1 for o in od[-2:]) and all(abs(o - nominal) <= 0.25 for o in od)
        tag = {"bwd_euler": "time_order_1_bwd", "fwd_euler": "time_order_1_fwd", "crank_nicolson": "time_order_2_cn"}[scheme]
        if ok:
            out["cover"].append(tag)
            out["digests"].append(digest([scheme, backend, item["params"]]))
        else:
            viol("time_convergence", f"errors {errs} orders {od}", scheme=scheme)
        out["sample"] = dict(item, errors=errs, orders=od)
    elif item["part"] == "cable_time":
        scheme, backend = item["scheme"], item["backend"]
        nb, cm = int(item["nbranches"]), float(item["cm"])
        try:
            errs = cable_time_ladder(scheme, backend, tuple(item["geom"]), nb, cm)
        except Exception as e:
            viol("raised", f"{type(e).__name__}: {str(e)[:200]}", part="cable_time")
            return out
        out["evals"] += 5
        od = orders(errs)
        nominal = 2.0 if scheme == "crank_nicolson" else 1.0
        ok = all(abs(o - nominal) <= 0.15 for o in od[-2:]) and all(abs(o - nominal) <= 0.35 for o in od)
        if ok:
            out["cover"].append("time_order_on_coupled_cable_" + ("cn" if scheme == "crank_nicolson" else "bwd"))
            out["cover"].append(f"backend:{backend}")
            out["digests"].append(digest(["cable_time", scheme, backend, item["geom"], nb, cm]))
        else:
            viol("time_convergence_on_cable", f"errors {errs} orders {od} (nbranches {nb}, cm {cm})", scheme=scheme,
                 backend_family="sparse" if backend == "jax.sparse" else "jaxley")
        out["sample"] = dict(item, errors=errs, orders=od)
    else:  # units
        r, Lc, g = item["params"]
        for backend in BACKENDS:
            c = _cable(1, r, Lc, 500.0, g)
            vs, _ = build.eager_step(c, "bwd_euler", backend, 1e9, {"i": np.asarray([I_NA])}, {"i": np.asarray([0])}, nsteps=1)
            A = 2 * pi * r * Lc * 1e-8
            want = E_LEAK + I_NA * 1e-9 / (g * A) * 1e3
            got = float(np.asarray(vs[1])[0])
            out["evals"] += 1
            # dt = 1e9: relative deviation from the steady state of order tau/dt = 1e-8
            if abs(got - want) > 1e-6 * (1 + abs(want - E_LEAK)):
                viol("unit_constants", f"{backend}: steady state {got} vs E + I/(gA) = {want}")
            else:
                out["cover"].append("unit_constants")
                out["digests"].append(digest([item["params"], backend]))
    return out


def explore(ctx):
    geoms = list(itertools.product((0.5, 2.0), (0.5, 2.5), (100.0, 1000.0), (1e-4, 1e-3)))
    items = []
    for g in geoms:
        for b in BACKENDS:
            if ctx.tier == "quick" and b == "jaxley.thomas" and g[2] == 1000.0:
                continue
            items.append({"part": "space", "geom": list(g), "backend": b})
    # the same cables built as cells of 2 and 4 branches in series, with capacitance != 1 (steady state does not depend on c_m)
    for g in geoms:
        if ctx.tier == "quick" and not (g[0] == 2.0 and g[2] == 100.0):
            continue
        for b in BACKENDS:
            for nb, cm in ((2, 2.5), (4, 0.6), ("uneven", 1.7)):
                if ctx.tier == "quick" and b == "jaxley.thomas" and nb == 4:
                    continue
                items.append({"part": "space", "geom": list(g), "backend": b, "nbranches": nb, "cm": cm})
    rc_params = [(1.0, 10.0, 1e-4, 1.0), (2.0, 5.0, 1e-3, 2.0)] if ctx.tier == "quick" else [(1.0, 10.0, 1e-4, 1.0), (2.0, 5.0, 1e-3, 2.0), (0.5, 20.0, 3e-4, 0.7)]
    for p in rc_params:
        for scheme in ("bwd_euler", "crank_nicolson", "fwd_euler"):
            for b in BACKENDS:
                if scheme == "fwd_euler" and b != "jaxley.stone":
                    continue
                items.append({"part": "time", "scheme": scheme, "backend": b, "params": list(p)})
    for p in itertools.product((0.5, 2.0), (5.0, 40.0), (1e-4, 1e-3)):
        items.append({"part": "units", "params": list(p)})
    # time stepping with axial coupling: relaxation of a voltage profile on 4-compartment cables, every scheme x backend
    ct_geoms = [(2.0, 1.0, 100.0, 1e-4)] if ctx.tier == "quick" else [(2.0, 1.0, 100.0, 1e-4), (0.5, 2.5, 1000.0, 1e-3)]
    for gm in ct_geoms:
        for scheme in ("bwd_euler", "crank_nicolson"):
            for b in BACKENDS:
                for nb, cm in ((1, 1.0), (2, 2.5)):
                    if ctx.tier == "quick" and nb == 2 and b == "jaxley.thomas":
                        continue
                    items.append({"part": "cable_time", "geom": list(gm), "scheme": scheme, "backend": b, "nbranches": nb, "cm": cm})
    ctx.note("cables", len(geoms))
    ctx.note("ladder", "ncomp 4..64, dt 0.5..0.03125")
    ctx.map("work", items)


def replay(w):
    return work(w)["violations"]
