"""C12 — assembly preserves constituents; uncoupled parts simulate independently.

Bounded-exhaustive over heterogeneous constituents: all branches of length <= 2 (3) over a 5-compartment
alphabet, all cells with <= 3 branches over a 3-branch alphabet and all parent vectors, all networks of
<= 2 (3) cells from a 4-cell catalogue.  Oracles: table = concatenation of the constituents' tables;
network == each cell alone, 1-branch cell == branch, 1-compartment branch == compartment; permuting
siblings / cells permutes the results only.
"""
from __future__ import annotations

import itertools

import numpy as np

from vf import build
from vf.runner import digest

ID = "C12"
LEVEL = "exploration"
RULE = (
    "compartment alphabet {plain, HH, Na+K (vt,eK modified), CaL+CaT (eCa modified), Leak+Km}; all branches of length <=2 (quick) / <=3 "
    "(thorough); all cells with <=3 branches over a 3-branch alphabet x all parent vectors; all ordered pairs (quick) / triples (thorough) "
    "of a 4-cell catalogue as networks; per assembled module: table comparison with the concatenated constituents, 3 eager steps on "
    "every accepting backend compared with the parts simulated alone, sibling/cell permutations; distinct = assembled module descriptions "
    "whose simulation moves the voltages"
)
REQUIRED_COVER = ["branch_relabelling", "absent_channel_stays_absent", "shared_param_name_different_values", "one_branch_cell_eq_branch", "one_comp_branch_eq_comp",
                  "network_eq_cells_alone", "sibling_permutation", "cell_permutation", "heterogeneous_ncomp",
                  "accepted:jaxley.stone", "accepted:jaxley.thomas", "accepted:jax.sparse"]
ASSUMPTIONS = ["initial voltages stay below -20 mV (CaT time constant defect F16 and rate singularities are C04/C03's business)"]
BACKENDS = ["jaxley.stone", "jaxley.thomas", "jax.sparse"]
DT = 0.025
NSTEPS = 3
TOL = 1e-10
INDEX_COLS = {"global_comp_index", "global_branch_index", "global_cell_index", "local_comp_index", "local_branch_index",
              "local_cell_index", "controlled_by_param"}


def comp_of(k):
    """The k-th compartment of the alphabet (fresh object)."""
    J = build.jx()
    import jaxley.channels as C

    c = J.Compartment()
    c.set("radius", [1.0, 0.6, 1.7, 0.9, 2.3, 1.3][k])
    c.set("length", [10.0, 14.0, 6.0, 22.0, 8.0, 12.0][k])
    c.set("axial_resistivity", [5000.0, 900.0, 2500.0, 400.0, 1500.0, 3000.0][k])
    c.set("capacitance", [1.0, 0.8, 1.4, 1.1, 0.7, 1.2][k])
    c.set("v", [-70.0, -66.5, -73.25, -61.75, -68.0, -57.5][k])
    if k == 5:
        # two user channels coupled through a state, inserted in NON-alphabetical order (Zeta first): the order in which a module
        # updates its channels is the order of insertion, and assembling must not change it
        from vf import models

        zeta, alpha = models.coupled_channels()
        c.insert(zeta)
        c.insert(alpha)
        c.insert(C.Leak())
    if k == 1:
        c.insert(C.HH())
        c.set("HH_gNa", 0.09)
        c.set("HH_m", 0.31)
    elif k == 2:
        c.insert(C.Na())
        c.insert(C.K())
        c.set("vt", -55.0)
        c.set("eK", -85.0)
        c.set("K_n", 0.37)
    elif k == 3:
        c.insert(C.CaL())
        c.insert(C.CaT())
        c.set("eCa", 100.0)
        c.set("CaT_vx", 0.0)
    elif k == 4:
        c.insert(C.Leak())
        c.set("Leak_gLeak", 3e-4)
        c.set("Leak_eLeak", -58.0)
        c.insert(C.Km())  # eK stays at Km's default (-90) here, -85 in compartment 2
    return c


def branch_of(ks):
    J = build.jx()
    return J.Branch([comp_of(k) for k in ks])


BRANCH_ALPHABET = [(1, 0), (2,), (3, 4)]
CELL_CATALOGUE = [
    {"parents": [-1], "branches": [(1, 0)]},
    {"parents": [-1, 0], "branches": [(2,), (3, 4)]},
    {"parents": [-1, 0, 0], "branches": [(1, 0), (2,), (3, 4)]},
    {"parents": [-1, 0, 1], "branches": [(3, 4), (1, 0), (2,)]},
]


def cell_of(desc):
    J = build.jx()
    return J.Cell([branch_of(b) for b in desc["branches"]], parents=list(desc["parents"]))


def module_of(desc):
    J = build.jx()
    k = desc["kind"]
    if k == "comp":
        return comp_of(desc["k"])
    if k == "branch":
        return branch_of(desc["ks"])
    if k == "cell":
        return cell_of(desc)
    return J.Network([cell_of(c) for c in desc["cells"]])


def constituents(desc):
    """Flat list of compartment alphabet indices, in assembly order."""
    k = desc["kind"]
    if k == "comp":
        return [desc["k"]]
    if k == "branch":
        return list(desc["ks"])
    if k == "cell":
        return [c for b in desc["branches"] for c in b]
    return [c for cell in desc["cells"] for b in cell["branches"] for c in b]


def check_table(m, desc, viol, cover):
    ks = constituents(desc)
    nd = m.nodes
    if len(nd) != len(ks) or list(nd.index) != list(range(len(ks))) or list(nd["global_comp_index"]) != list(range(len(ks))):
        viol("contiguous_indices", f"{len(nd)} rows for {len(ks)} constituents; index {list(nd.index)}")
        return
    flags = {c._name for c in m.channels}
    for i, k in enumerate(ks):
        src = comp_of(k).nodes.iloc[0]
        src_flags = {c for c in src.index if c in ("HH", "Na", "K", "Km", "CaL", "CaT", "Leak")}
        for col in nd.columns:
            if col in INDEX_COLS:
                continue
            got = nd.loc[i, col]
            if col in src.index:
                want = src[col]
                same = (got == want) or (isinstance(want, float) and np.isnan(want) and np.isnan(got))
                if not same:
                    viol("constituent_value_changed", f"row {i} (alphabet {k}) column {col}: {got} vs {want}", column_kind="flag" if col in flags else "value")
            else:
                if col in flags:
                    if bool(got) is not False:
                        viol("absent_channel_became_present", f"row {i} (alphabet {k}) flag {col} = {got}")
                    else:
                        cover.append("absent_channel_stays_absent")
                elif not (isinstance(got, float) and np.isnan(got)) and not _is_nan(got):
                    viol("absent_column_not_nan", f"row {i} (alphabet {k}) column {col} = {got}")
        for col in src.index:
            if col not in nd.columns and col not in INDEX_COLS:
                viol("constituent_column_lost", f"column {col} of alphabet {k}")
    if 2 in ks and 4 in ks:
        cover.append("shared_param_name_different_values")


def _is_nan(x):
    try:
        return bool(np.isnan(x))
    except Exception:
        return False


def sim(m, backend):
    n = len(m.nodes)
    ext = {"i": np.asarray([0.15])}
    inds = {"i": np.asarray([0])}
    vs, _ = build.eager_step(m, "bwd_euler", backend, DT, {"i": np.tile(np.asarray([[0.15]]), (1, NSTEPS))}, inds, nsteps=NSTEPS)
    return np.asarray(vs)  # (NSTEPS+1, n)


def _sim_ok(m, backend, refusals, tag):
    try:
        return sim(m, backend)
    except AssertionError:
        refusals.append(f"{backend}:{tag}:AssertionError")
        return None


def check_module(desc):
    out = {"violations": [], "cover": [], "refusals": [], "digests": [], "evals": 0}

    def viol(rule, msg, **extra):
        sig = {"rule": rule, "kind": desc["kind"]}
        sig.update(extra)
        out["violations"].append({"sig": sig, "witness": {"desc": desc}, "msg": msg})

    try:
        m = module_of(desc)
    except Exception as e:
        viol("assembly_raised", f"{type(e).__name__}: {str(e)[:200]}")
        return out
    out["evals"] += 1
    check_table(m, desc, viol, out["cover"])
    kind = desc["kind"]
    if kind == "cell" and len(set(len(b) for b in desc["branches"])) > 1:
        out["cover"].append("heterogeneous_ncomp")
    for backend in BACKENDS:
        whole = _sim_ok(m, backend, out["refusals"], kind)
        if whole is None:
            continue
        out["evals"] += 1
        out["cover"].append(f"accepted:{backend}")
        if not np.all(np.isfinite(whole)):
            viol("finite", f"{backend}: non-finite voltages")
            continue
        if float(np.max(np.abs(whole[-1] - whole[0]))) > 1e-6:
            out["digests"].append(digest([desc, backend]))

        def cmp(rule, part, cols, cov):
            got = whole[:, cols]
            err = float(np.max(np.abs(got - part) / (1 + np.abs(part))))
            out["cover"].append(cov)
            if not np.isfinite(err) or err > TOL:
                viol(rule, f"{backend}: max rel diff {err}", backend_family="sparse" if backend == "jax.sparse" else "jaxley")

        if kind == "branch" and len(desc["ks"]) == 1:
            part = _sim_ok(comp_of(desc["ks"][0]), backend, out["refusals"], "comp")
            if part is not None:
                cmp("one_comp_branch_ne_comp", part, [0], "one_comp_branch_eq_comp")
        if kind == "cell" and len(desc["branches"]) == 1:
            part = _sim_ok(branch_of(desc["branches"][0]), backend, out["refusals"], "branch")
            if part is not None:
                cmp("one_branch_cell_ne_branch", part, list(range(len(desc["branches"][0]))), "one_branch_cell_eq_branch")
        if kind == "cell" and list(desc["parents"]) == [-1, 0, 0]:
            b = desc["branches"]
            if b[1] != b[2]:
                sw = dict(desc, branches=[b[0], b[2], b[1]])
                other = _sim_ok(module_of(sw), backend, out["refusals"], "cell")
                if other is not None:
                    n0, n1, n2 = len(b[0]), len(b[1]), len(b[2])
                    perm = list(range(n0)) + list(range(n0 + n2, n0 + n2 + n1)) + list(range(n0, n0 + n2))
                    cmp("sibling_permutation_changes_result", other[:, perm], list(range(n0 + n1 + n2)), "sibling_permutation")
        if kind == "cell" and desc.get("relabel"):
            # the same tree listed in another admissible branch order (children of different siblings swapped in the list)
            rl = desc["relabel"]
            other_desc = {"kind": "cell", "parents": rl["parents"], "branches": [desc["branches"][i] for i in rl["order"]]}
            other = _sim_ok(module_of(other_desc), backend, out["refusals"], "cell")
            if other is not None:
                sizes = [len(b) for b in desc["branches"]]
                offs = np.concatenate([[0], np.cumsum(sizes)])
                new_sizes = [sizes[i] for i in rl["order"]]
                new_offs = np.concatenate([[0], np.cumsum(new_sizes)])
                # column of original branch i in the relabelled module
                perm = []
                for i in range(len(sizes)):
                    j = rl["order"].index(i)
                    perm += list(range(new_offs[j], new_offs[j] + sizes[i]))
                # stimulus sits on compartment 0 = first compartment of branch 0, which keeps its place
                cmp("branch_relabelling_changes_result", other[:, perm], list(range(int(offs[-1]))), "branch_relabelling")
        if kind == "net":
            off = 0
            first = True
            for ci, c in enumerate(desc["cells"]):
                nc = sum(len(b) for b in c["branches"])
                cell = cell_of(c)
                ext = {"i": np.tile(np.asarray([[0.15 if ci == 0 else 0.0]]), (1, NSTEPS))}
                try:
                    vs, _ = build.eager_step(cell, "bwd_euler", backend, DT, ext, {"i": np.asarray([0])}, nsteps=NSTEPS)
                    cmp("network_cell_ne_cell_alone", np.asarray(vs), list(range(off, off + nc)), "network_eq_cells_alone")
                except AssertionError:
                    out["refusals"].append(f"{backend}:cell:AssertionError")
                off += nc
            if len(desc["cells"]) == 2 and desc["cells"][0] != desc["cells"][1]:
                sw = dict(desc, cells=[desc["cells"][1], desc["cells"][0]])
                msw = module_of(sw)
                n0 = sum(len(b) for b in desc["cells"][0]["branches"])
                n1 = sum(len(b) for b in desc["cells"][1]["branches"])
                try:
                    # stimulus follows the cell: first compartment of the original first cell
                    vs, _ = build.eager_step(msw, "bwd_euler", backend, DT, {"i": np.tile(np.asarray([[0.15]]), (1, NSTEPS))},
                                             {"i": np.asarray([n1])}, nsteps=NSTEPS)
                    other = np.asarray(vs)
                    perm = list(range(n1, n1 + n0)) + list(range(n1))
                    cmp("cell_permutation_changes_result", other[:, perm], list(range(n0 + n1)), "cell_permutation")
                except AssertionError:
                    out["refusals"].append(f"{backend}:net:AssertionError")
    out["sample"] = {"desc": desc}
    return out


def work(item):
    res = {"violations": [], "cover": [], "refusals": [], "digests": [], "evals": 0}
    for d in item["descs"]:
        r = check_module(d)
        for k in ("violations", "cover", "refusals", "digests"):
            res[k] += r[k]
        res["evals"] += r["evals"]
    res["sample"] = item["descs"][0]
    return res


def explore(ctx):
    quick = ctx.tier == "quick"
    descs = [{"kind": "comp", "k": k} for k in range(5)]
    for L in range(1, (2 if quick else 3) + 1):
        for ks in itertools.product(range(5), repeat=L):
            descs.append({"kind": "branch", "ks": list(ks)})
    from vf import scope

    for n in (1, 2, 3):
        for p in scope.parent_vectors(n):
            for bs in itertools.product(BRANCH_ALPHABET, repeat=n):
                descs.append({"kind": "cell", "parents": list(p), "branches": [list(b) for b in bs]})
    # 5-branch trees listed in two admissible orders: [-1,0,0,1,2] vs [-1,0,0,2,1] (the children of siblings 1 and 2 swapped in the list)
    B5 = [(1, 0), (2,), (3, 4), (0, 1), (4,)]
    for rot in range(len(B5) if not quick else 2):
        bs = B5[rot:] + B5[:rot]
        descs.append({"kind": "cell", "parents": [-1, 0, 0, 1, 2], "branches": [list(b) for b in bs],
                      "relabel": {"parents": [-1, 0, 0, 2, 1], "order": [0, 1, 2, 4, 3]}})
        descs.append({"kind": "cell", "parents": [-1, 0, 1, 0, 3], "branches": [list(b) for b in bs],
                      "relabel": {"parents": [-1, 0, 0, 2, 1], "order": [0, 3, 1, 2, 4]}})
    for r in ((2,) if quick else (2, 3)):
        for tup in itertools.product(range(len(CELL_CATALOGUE)), repeat=r):
            descs.append({"kind": "net", "cells": [dict(parents=CELL_CATALOGUE[i]["parents"], branches=[list(b) for b in CELL_CATALOGUE[i]["branches"]]) for i in tup]})
    # compartment 5 (state-coupled user channels): alone, in branches, in a cell next to other channels, in networks in both orders
    descs.append({"kind": "comp", "k": 5})
    for ks in ([5], [5, 0], [1, 5], [5, 5]):
        descs.append({"kind": "branch", "ks": ks})
    descs.append({"kind": "cell", "parents": [-1, 0], "branches": [[5, 0], [2]]})
    descs.append({"kind": "cell", "parents": [-1, 0, 0], "branches": [[1, 0], [5], [3, 4]]})
    for cells in ([{"parents": [-1, 0], "branches": [[5, 0], [2]]}, {"parents": [-1], "branches": [[1, 0]]}],
                  [{"parents": [-1], "branches": [[1, 0]]}, {"parents": [-1, 0], "branches": [[5, 0], [2]]}]):
        descs.append({"kind": "net", "cells": cells})
    ctx.note("modules", len(descs))
    items = [{"descs": descs[i:i + 2]} for i in range(0, len(descs), 2)]
    ctx.map("work", items)


def replay(w):
    return check_module(w["desc"])["violations"]
