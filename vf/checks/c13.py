"""C13 — set_ncomp preserves the branch and its surroundings.

Explicit-state BFS over set_ncomp(branch, n) histories on three real cells (hand-built with channels and
groups; hand-built passive with groups; SWC cell with radius-generating functions).  Every reached state is
compared with a module *built directly* with that compartment vector (tables and simulation on all three
backends); states reached by different histories with the same vector must be identical.
"""
from __future__ import annotations

import collections
import copy
import os
import tempfile

import numpy as np

from vf import build, canon, explorer
from vf.runner import digest

ID = "C13"
LEVEL = "model_checking"
RULE = (
    "BFS over set_ncomp(b, n) histories, b in all branches, n in {1,2,3} (quick) / {1,2,3,4} (thorough), depth 2 / 3, from three initial "
    "cells; state = canonical tables (labelled by the ncomp vector); per state: branch totals (length), uniform properties, group->branch "
    "membership, connectivity, untouched branches, comparison with a directly built module (tables + 2 eager steps on every backend); "
    "path independence: all histories reaching one ncomp vector must give one canonical state"
)
REQUIRED_COVER = ["min_radius_option", "min_radius_with_unchanged_ncomp", "padded_parent_with_children", "groups_present", "swc_radius_profile", "shrink", "grow", "path_independence_checked",
                  "accepted:jaxley.stone", "accepted:jaxley.thomas", "accepted:jax.sparse"]
ASSUMPTIONS = [
    "tables are compared up to round-off (1e-12): set_ncomp averages the rows of the branch, which can change a uniform value by an ulp",
    "set_ncomp refusing a branch (e.g. single-compartment branch of a module with channels) is a refusal, not a violation",
    "a group keeps a branch iff it contained any compartment of it before (groups are compared as sets of branches)",
]
SIG_INIT = True
EXPAND_BROKEN_STATES = True
DT = 0.025
PARENTS = [-1, 0, 0, 1]
BR = {  # per-branch uniform properties of the hand-built cells
    "radius": [1.5, 0.7, 1.1, 0.4],
    "total_length": [24.0, 30.0, 12.0, 42.0],
    "axial_resistivity": [1000.0, 2500.0, 600.0, 4000.0],
    "capacitance": [1.0, 0.8, 1.3, 1.1],
    "gNa": [0.12, 0.09, 0.15, 0.1],
    "v": [-70.0, -66.0, -73.0, -68.0],
}
SWC = """# harness-written
1 1 0.0 0.0 0.0 6.0 -1
2 1 0.0 4.0 0.0 5.0 1
3 1 0.0 8.0 0.0 4.0 2
4 3 0.0 14.0 0.0 1.1 3
5 3 0.0 22.0 0.0 0.8 4
6 3 5.0 27.0 0.0 0.6 5
7 3 3.0 33.0 0.0 0.3 6
8 3 -4.0 28.0 0.0 0.5 5
9 2 6.0 0.0 0.0 0.9 1
10 2 13.0 0.0 0.0 0.4 9
11 2 19.0 2.0 0.0 0.7 10
"""


def _hand(ncomps, channels=True):
    J = build.jx()
    from jaxley.channels import HH

    branches = []
    for b, n in enumerate(ncomps):
        c = J.Compartment()
        c.set("radius", BR["radius"][b])
        c.set("length", BR["total_length"][b] / n)
        c.set("axial_resistivity", BR["axial_resistivity"][b])
        c.set("capacitance", BR["capacitance"][b])
        c.set("v", BR["v"][b])
        if channels:
            c.insert(HH())
            c.set("HH_gNa", BR["gNa"][b])
        branches.append(J.Branch([c] * int(n)))
    cell = J.Cell(branches, parents=PARENTS)
    cell.branch([1, 3]).add_to_group("A")
    cell.branch(2).add_to_group("B")
    # a group first registered from a NON-ascending selection (its stored index array is not sorted): branch 3, then branch 1
    off = np.concatenate([[0], np.cumsum(ncomps)]).astype(int)
    rows = list(range(off[3], off[4])) + list(range(off[1], off[2]))
    cell.select(nodes=rows).add_to_group("U")
    return cell


MIN_RADIUS = 0.75  # above several traced radii of the SWC file (0.3 .. 0.7), below others


def _swc(ncomp=2, min_radius=None):
    J = build.jx()
    fd, path = tempfile.mkstemp(suffix=".swc")
    with os.fdopen(fd, "w") as f:
        f.write(SWC)
    try:
        c = J.read_swc(path, ncomp=ncomp, min_radius=min_radius)
    finally:
        os.unlink(path)
    return c


INITS = {
    "hand_hh": lambda: _hand([2, 2, 2, 2], True),
    "hand_passive": lambda: _hand([2, 1, 2, 1], False),
    "swc": lambda: _swc(2),
}
NS = [1, 2, 3, 4]
OPS = collections.OrderedDict()
for _b in range(6):
    for _n in NS:
        OPS[f"b{_b}_n{_n}"] = (lambda b, n: (lambda m: m.branch(b).set_ncomp(n)))(_b, _n)
        # the rarely used option: the radius cap is (re)applied to the modified branch -- also when n equals the present count
        OPS[f"b{_b}_n{_n}_mr"] = (lambda b, n: (lambda m: m.branch(b).set_ncomp(n, min_radius=MIN_RADIUS)))(_b, _n)
_NB = {"hand_hh": 4, "hand_passive": 4, "swc": None}
OPS_FOR = {}
_tier_ns = {"quick": [1, 2, 3], "thorough": [1, 2, 3, 4]}
_cache = {}


def _nbranches(init):
    if init not in _cache:
        _cache[init] = len(np.asarray(INITS[init]().comb_parents))
    return _cache[init]


def set_tier(tier):
    for init in INITS:
        OPS_FOR[init] = [f"b{b}_n{n}" for b in range(_nbranches(init)) for n in _tier_ns[tier]]
        if init == "swc":
            OPS_FOR[init] += [f"b{b}_n{n}_mr" for b in range(_nbranches(init)) for n in _tier_ns[tier]]


def state_label(m):
    return ",".join(str(int(x)) for x in m.ncomp_per_branch)


def state_label_hist(m, hist):
    """ncomp vector plus, per branch, whether its LAST set_ncomp call carried the min_radius cap: states with equal labels must be equal."""
    caps = []
    for b in range(len(m.ncomp_per_branch)):
        last = [op for op in hist if op.startswith(f"b{b}_")]
        caps.append("c" if last and last[-1].endswith("_mr") else "")
    return ",".join(f"{int(x)}{c}" for x, c in zip(m.ncomp_per_branch, caps))


def _branch_groups(m):
    nd = m.nodes
    return {g: sorted(set(int(nd.loc[i, "global_branch_index"]) for i in np.asarray(v) if 0 <= i < len(nd))) for g, v in m.groups.items()}


def _init_info(init):
    key = ("info", init)
    if key not in _cache:
        m = explorer.fresh(__import__("sys").modules[__name__], init)
        nd = m.nodes
        _cache[key] = {
            "groups": _branch_groups(m),
            "group_sizes_full": {g: all((nd["global_branch_index"] == b).sum() == sum(1 for i in np.asarray(v) if nd.loc[i, "global_branch_index"] == b)
                                      for b in _branch_groups(m)[g]) for g, v in m.groups.items()},
            "len": nd.groupby("global_branch_index")["length"].sum().to_numpy(),
            "parents": [int(p) for p in np.asarray(m.comb_parents)],
            "rows": {int(b): df.drop(columns=[c for c in df.columns if "index" in c or c == "controlled_by_param"]).reset_index(drop=True)
                     for b, df in nd.groupby("global_branch_index")},
            "ncomp": [int(x) for x in m.ncomp_per_branch],
        }
    return _cache[key]


def _direct(init, vec):
    """A module built directly with the compartment vector (None if not constructible directly)."""
    if init == "hand_hh":
        return _hand(vec, True)
    if init == "hand_passive":
        return _hand(vec, False)
    return None


def _swc_branch_rows(n, min_radius=None):
    key = ("swc_rows", n, min_radius)
    if key not in _cache:
        m = _swc(n, min_radius)
        _cache[key] = {int(b): df.reset_index(drop=True) for b, df in m.nodes.groupby("global_branch_index")}
    return _cache[key]


def _cmp_tables(a, b, cols_skip=("controlled_by_param",)):
    """Differences between two node tables (same shape expected)."""
    diffs = []
    if len(a) != len(b):
        return [f"row count {len(a)} vs {len(b)}"]
    for col in sorted(set(a.columns) | set(b.columns)):
        if col in cols_skip or col in ("x", "y", "z"):
            continue
        if col not in a.columns or col not in b.columns:
            diffs.append(f"column {col} only on one side")
            continue
        x, y = a[col].to_numpy(), b[col].to_numpy()
        try:
            xf, yf = x.astype(float), y.astype(float)
            ok = (np.isnan(xf) & np.isnan(yf)) | (np.abs(xf - yf) <= 1e-9 * (1 + np.abs(yf)))
        except (TypeError, ValueError):
            ok = x == y
        if not np.all(ok):
            diffs.append(f"{col}: rows {np.where(~ok)[0].tolist()} {x[~ok].tolist()} vs {y[~ok].tolist()}")
    return diffs


def invariants(m, hist, **kw):
    errs = []
    init = kw["item"]["init"]
    info = _init_info(init)
    nd = m.nodes
    vec = [int(x) for x in m.ncomp_per_branch]
    # structure
    if list(nd["global_comp_index"]) != list(range(len(nd))) or list(nd.index) != list(range(len(nd))):
        errs.append(("indices", "not_contiguous", ""))
    if list(np.repeat(np.arange(len(vec)), vec)) != list(nd["global_branch_index"]):
        errs.append(("indices", "branch_index_vs_ncomp_vector", f"{list(nd['global_branch_index'])} vs {vec}"))
    if [int(p) for p in np.asarray(m.comb_parents)] != info["parents"]:
        errs.append(("connectivity", "parents_changed", ""))
    # total length per branch
    tot = nd.groupby("global_branch_index")["length"].sum().to_numpy()
    if not np.allclose(tot, info["len"], rtol=1e-12):
        errs.append(("total_length", "changed", f"{tot.tolist()} vs {info['len'].tolist()}"))
    # uniform properties and untouched branches
    for b in range(len(vec)):
        rows = nd[nd["global_branch_index"] == b]
        ref = info["rows"][b]
        for col in ref.columns:
            if col in ("length", "radius", "x", "y", "z") or col not in rows.columns:
                continue
            rv = ref[col].to_numpy()
            if len(set(map(str, rv))) == 1:
                got = rows[col].to_numpy()
                same = all((g == rv[0]) or (_nan(g) and _nan(rv[0])) or _close(g, rv[0]) for g in got)
                if not same:
                    errs.append(("uniform_property", "changed", f"branch {b} {col}: {got.tolist()} vs {rv[0]}"))
        if vec[b] == info["ncomp"][b] and init != "swc":
            for col in ("length", "radius"):
                if not np.allclose(rows[col].to_numpy(), ref[col].to_numpy(), rtol=1e-12):
                    errs.append(("other_branch", "changed", f"branch {b} {col}"))
    # group -> branch membership
    bg = _branch_groups(m)
    if bg != info["groups"]:
        errs.append(("groups", "branch_membership_changed", f"{bg} vs {info['groups']} after {hist}"))
    else:
        for g, v in m.groups.items():
            v = np.asarray(v)
            if len(v) and (v.max() >= len(nd) or v.min() < 0):
                errs.append(("groups", "index_out_of_range", f"{g}: {v.tolist()}"))
            elif info["group_sizes_full"].get(g):
                want = sorted(int(i) for i in nd.index[nd["global_branch_index"].isin(info["groups"][g])])
                if sorted(int(i) for i in v) != want:
                    errs.append(("groups", "whole_branch_group_incomplete", f"{g}: {sorted(v.tolist())} vs {want}"))
    # comparison with direct construction (tables)
    d = _direct(init, vec)
    if d is not None:
        diffs = _cmp_tables(nd, d.nodes)
        if diffs:
            errs.append(("direct_build_tables", "differ", "; ".join(diffs[:4])))
    else:
        for b in range(len(vec)):
            last = [op for op in hist if op.startswith(f"b{b}_")]
            capped = bool(last) and last[-1].endswith("_mr")  # the cap belongs to the LAST set_ncomp call on this branch
            want = _swc_branch_rows(vec[b], MIN_RADIUS if capped else None)[b]
            rows = nd[nd["global_branch_index"] == b].reset_index(drop=True)
            for col in ("radius", "length"):
                if not np.allclose(rows[col].to_numpy(), want[col].to_numpy(), rtol=1e-9):
                    errs.append(("swc_radius_profile" if col == "radius" else "swc_length", "differs_from_read_swc",
                                 f"branch {b} n={vec[b]}: {rows[col].tolist()} vs {want[col].tolist()}"))
    return errs


def _close(a, b):
    try:
        return abs(float(a) - float(b)) <= 1e-12 * (1 + abs(float(b)))
    except Exception:
        return False


def _nan(x):
    try:
        return bool(np.isnan(x))
    except Exception:
        return False


def cover_of(m, hist):
    from vf import scope

    out = []
    vec = [int(x) for x in m.ncomp_per_branch]
    par = [int(p) for p in np.asarray(m.comb_parents)]
    if "padded_branch_with_children" in scope.morph_predicates(par, vec):
        out.append("padded_parent_with_children")
    if m.groups:
        out.append("groups_present")
    if getattr(m, "_radius_generating_fns", None) is not None:
        out.append("swc_radius_profile")
    n = int(hist[-1].split("_n")[1].split("_")[0])
    b = int(hist[-1].split("_")[0][1:])
    if hist[-1].endswith("_mr"):
        out.append("min_radius_option")
        if len(hist) >= 1 and n == _init_info("swc")["ncomp"][b] and not any(op.startswith(f"b{b}_") for op in hist[:-1]):
            out.append("min_radius_with_unchanged_ncomp")
    return out + (["grow"] if n >= 3 else []) + (["shrink"] if n == 1 else [])


def simulate_state(m, hist):
    res = {"errs": [], "refusals": [], "cover": [], "digests": []}
    init = "swc" if getattr(m, "_radius_generating_fns", None) is not None else ("hand_hh" if len(m.channels) else "hand_passive")
    vec = [int(x) for x in m.ncomp_per_branch]
    d = _direct(init, vec)
    ext = {"i": np.tile(np.asarray([[0.2]]), (1, 2))}
    inds = {"i": np.asarray([0])}
    ref = None
    for backend in ["jaxley.stone", "jaxley.thomas", "jax.sparse"]:
        try:
            vs, _ = build.eager_step(copy.deepcopy(m), "bwd_euler", backend, DT, ext, inds, nsteps=2)
        except Exception as e:
            res["errs"].append(("simulate", "raised", f"{backend}: {type(e).__name__}: {str(e)[:150]}"))
            continue
        vs = np.asarray(vs)
        res["cover"].append(f"accepted:{backend}")
        if not np.all(np.isfinite(vs)):
            res["errs"].append(("simulate", "non_finite", backend))
            continue
        if d is not None:
            vd, _ = build.eager_step(d, "bwd_euler", backend, DT, ext, inds, nsteps=2)
            err = float(np.max(np.abs(vs - np.asarray(vd))))
            if err > 1e-9:
                res["errs"].append(("direct_build_simulation", "differs", f"{backend}: max diff {err} for ncomp {vec} after {hist}"))
        if ref is None:
            ref = vs
        else:
            err = float(np.max(np.abs(vs - ref)))
            if err > 1e-7:
                res["errs"].append(("backends_disagree", "after_set_ncomp", f"{backend}: {err} for ncomp {vec}"))
    if ref is not None:
        res["digests"].append(digest([init, vec, np.round(ref, 7).tolist()]))
    return res


def worker_init():
    canon.SIG_DIGITS = 12  # weaker reading: tables are compared up to round-off (set_ncomp averages rows)


def expand(item):
    import sys

    set_tier(item.get("tier", "quick"))
    return explorer.expand_item(sys.modules[__name__], item)


def simulate(item):
    import sys

    return explorer.simulate_item(sys.modules[__name__], item)


def explore(ctx):
    import sys

    mod = sys.modules[__name__]
    set_tier(ctx.tier)
    canon.SIG_DIGITS = 12
    depth = 2 if ctx.tier == "quick" else 3
    ctx.note("depth", depth)
    ctx.note("n_alphabet", _tier_ns[ctx.tier])
    # pass the tier to workers through the items: wrap ctx.map
    orig_map = ctx.map

    def map_with_tier(fn, items, **kw):
        return orig_map(fn, [dict(it, tier=ctx.tier) for it in items], **kw)

    ctx.map = map_with_tier
    explorer.bfs(ctx, mod, list(INITS), depth, sim_depth=depth, expand_chunk=6)
    ctx.map = orig_map
    # path independence: one canonical state per (init, ncomp vector)
    for (init, label), hashes in ctx.labels.items():
        ctx.cover("path_independence_checked")
        if len(hashes) > 1:
            hs = list(hashes.items())
            ctx.violation({"rule": "path_dependence", "detail": "same_ncomp_vector_different_state", "init": init},
                          {"init": init, "history": hs[0][1], "other_history": hs[1][1], "phase": "path"},
                          f"ncomp vector {label} reached with {len(hashes)} different canonical states, e.g. via {hs[0][1]} and {hs[1][1]}")


def replay(w):
    import sys

    mod = sys.modules[__name__]
    set_tier("thorough")
    canon.SIG_DIGITS = 12
    hist = list(w["history"])
    if w.get("phase") == "simulate":
        return explorer.simulate_item(mod, {"states": [{"init": w["init"], "hist": hist}]})["violations"]
    if w.get("phase") == "path":
        a = canon.hash_of(canon.snapshot(explorer.replay(mod, w["init"], hist)))
        b = canon.hash_of(canon.snapshot(explorer.replay(mod, w["init"], w["other_history"])))
        if a != b:
            return [{"sig": {"rule": "path_dependence", "detail": "same_ncomp_vector_different_state", "init": w["init"]}, "witness": w, "msg": "hashes differ"}]
        return []
    r = explorer.expand_item(mod, {"init": w["init"], "hist": hist[:-1], "ops": [hist[-1]]})
    return r["violations"]
