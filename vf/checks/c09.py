"""C09 — synaptic current flows from the listed pre- to the listed post-compartment.

Model checking over *creation histories*: every sequence of connect() calls up to the bound over an
alphabet of 6 (pre, post) pairs x 3 synapse types is replayed on a fresh real network; the reached
state is simulated for two steps and compared with vf.refsim fed the *multiset* of requested edges
(so creation order cannot matter), per-edge parameters assigned through three different view APIs.
"""
from __future__ import annotations

import copy
import itertools

import numpy as np

from vf import build, refsim, vals
from vf.runner import digest

ID = "C09"
LEVEL = "model_checking"
RULE = (
    "BFS over all sequences of connect(pre, post, type) calls (alphabet: 6 (pre,post) pairs incl. autapse, fan-in, "
    "same-cell and cross-cell pairs x {Ionotropic, Test, TanhRate}) up to the tier depth on two base networks "
    "(heterogeneous / level-homogeneous); every history is replayed on the real network, per-edge parameters are set via "
    "type views / global edge views / select(edges=), two real steps per accepting backend are compared with the reference "
    "simulator built from the request multiset; a state is the canonical multiset of requested edges; non-trivial = the "
    "synapses change the voltages by > 1e-6 mV relative to the unconnected network"
)
REQUIRED_COVER = ["silenced_through_views_after_a_simulation", "parameters_set_between_connects", "many_edges_interleaved", "autapse", "fan_in", "interleaved_types", "post_area_distinct", "same_cell_pair",
                  "accepted:jaxley.stone", "accepted:jaxley.thomas", "accepted:jax.sparse",
                  "api:type_view", "api:global_edge", "api:select_edges", "zero_g"]
ASSUMPTIONS = [
    "scheme details S1/S2 of DESIGN §5 (gate-first staggering, joint 1e-3 mV secant) are mirrored by the reference, not judged",
    "values are generic per-edge constants; histories deeper than the bound are not explored",
]

BACKENDS = ["jaxley.stone", "jaxley.thomas", "jax.sparse"]
TYPES = ["IonotropicSynapse", "TestSynapse", "TanhRateSynapse"]
DT = 0.025
NSTEPS = 2

# base networks: cells as (parents, ncomps)
NETS = {
    "hetero": [([-1, 0], [2, 1]), ([-1], [2]), ([-1, 0, 0], [1, 1, 2])],
    "level_homog": [([-1, 0], [2, 1]), ([-1], [2]), ([-1, 0, 0], [2, 1, 1])],
}
# endpoints as (cell, branch, comp)
EP = {"A": (0, 0, 1), "B": (1, 0, 0), "C": (2, 2, 0), "D": (0, 1, 0)}
PAIRS = [("A", "B"), ("C", "B"), ("B", "A"), ("A", "A"), ("D", "A"), ("B", "C")]
ALPHABET = [(p, q, t) for (p, q) in PAIRS for t in range(3)]  # 18 edges
API_FORMS = ["type_view", "global_edge", "select_edges"]

_cache = {}


def _base(netname):
    if netname not in _cache:
        J = build.jx()
        from jaxley.channels import HH

        cells = [build.cell_of(p, n) for p, n in NETS[netname]]
        net = J.Network(cells)
        n = len(net.nodes)
        val = vals.valuation(n, 2)
        for key in ["radius", "length", "axial_resistivity", "capacitance"]:
            net.set(key, np.asarray(val[key]))
        net.insert(HH())
        net.set("v", np.asarray(val["v"]))
        f = vals.table("i", n, 3)
        net.set("HH_m", 0.3 + 0.4 * (f + 0.5))
        net.set("HH_h", 0.2 + 0.5 * (0.5 - f))
        net.set("HH_n", 0.25 + 0.3 * (f + 0.5))
        _cache[netname] = net
    return _cache[netname]


def _gidx(net, ep):
    c, b, k = EP[ep]
    nd = net.nodes
    row = nd[(nd.global_cell_index == c) & (nd.local_branch_index == b) & (nd.local_comp_index == k)]
    assert len(row) == 1
    return int(row.index[0])


def _edge_values(pre, post, t):
    """Distinct per-edge parameter values as a pure function of the edge (order-independent)."""
    h = (ord(pre) * 7 + ord(post) * 13 + t * 29) % 17
    u = 0.15 + 0.7 * h / 16.0
    if TYPES[t] == "IonotropicSynapse":
        return {"IonotropicSynapse_gS": 2e-4 + 8e-4 * u, "IonotropicSynapse_e_syn": -80.0 + 90.0 * u,
                "IonotropicSynapse_k_minus": 0.025 + 0.2 * u, "IonotropicSynapse_s": 0.1 + 0.8 * u}
    if TYPES[t] == "TestSynapse":
        return {"TestSynapse_gC": 3e-4 + 6e-4 * u, "TestSynapse_c": 0.9 - 0.8 * u}
    return {"TanhRateSynapse_gS": 1e-4 + 4e-4 * u, "TanhRateSynapse_x_offset": -70.0 + 20.0 * u,
            "TanhRateSynapse_slope": 0.05 + 0.1 * u}


def _syn_obj(t):
    from jaxley.synapses import IonotropicSynapse, TanhRateSynapse, TestSynapse

    return [IonotropicSynapse, TestSynapse, TanhRateSynapse][t]()


def _apply(net, seq, forms, zero_g=False, incremental=False):
    """Replay the creation history on a real network and set per-edge parameters through views: after all connects, or
    (incremental) each edge's parameters right after its own connect, so that later connects find customised synapses."""
    from jaxley.connect import connect

    def do_connect(pre, post, t):
        cp, bp, kp = EP[pre]
        cq, bq, kq = EP[post]
        connect(net.cell(cp).branch(bp).comp(kp), net.cell(cq).branch(bq).comp(kq), _syn_obj(t))

    if not incremental:
        for (pre, post, t) in seq:
            do_connect(pre, post, t)
    rank = {}
    for gi, (pre, post, t) in enumerate(seq):
        if incremental:
            do_connect(pre, post, t)
        r = rank.get(t, 0)
        rank[t] = r + 1
        form = forms[gi % len(forms)]
        if form == "type_view":
            view = getattr(net, TYPES[t]).edge(r)
        elif form == "global_edge":
            view = net.scope("global").edge(gi)
        else:
            view = net.select(edges=[gi])
        for key, val in _edge_values(pre, post, t).items():
            if zero_g and key.endswith(("_gS", "_gC")):
                val = 0.0
            view.set(key, val)
    return net


def _ref_model(netname, seq, zero_g=False):
    net = _base(netname)
    model = refsim.model_from_module(net)  # base tables only (no edges yet)
    model["synapses"] = []
    for (pre, post, t) in seq:
        ev = dict(_edge_values(pre, post, t))
        if zero_g:
            for k in ev:
                if k.endswith(("_gS", "_gC")):
                    ev[k] = 0.0
        stype = TYPES[t]
        states = {k: v for k, v in ev.items() if k.endswith(("_s", "_c")) and not k.endswith("_gS")}
        states = {k: v for k, v in states.items() if k in (f"{stype}_s", f"{stype}_c")}
        params = {k: v for k, v in ev.items() if k not in states}
        model["synapses"].append({"type": stype, "name": stype, "pre": _gidx(net, pre), "post": _gidx(net, post),
                                  "params": params, "states": states})
    return model


def _sig_feats(seq):
    posts = [q for _, q, _ in seq]
    return {
        "autapse": any(p == q for p, q, _ in seq),
        "fan_in": len(posts) != len(set(posts)),
        "interleaved": _interleaved(seq),
    }


def _interleaved(seq):
    ts = [t for _, _, t in seq]
    # global edge index != rank within type for some edge of a type that is not the first type
    seen = []
    for i, t in enumerate(ts):
        if t in seen and seen[-1] != t:
            return True
        seen.append(t)
    return len(set(ts)) > 1 and ts != sorted(ts, key=lambda x: ts.index(x))


def run_history(netname, seq, forms, want_zero=True, nsteps=NSTEPS, incremental=False):
    out = {"violations": [], "cover": [], "refusals": [], "digests": [], "evals": 0, "transitions": len(seq)}
    seq = [tuple(e) for e in seq]
    feats = _sig_feats(seq)
    wit = {"net": netname, "seq": [list(e) for e in seq], "forms": list(forms), "nsteps": nsteps, "incremental": incremental}
    if incremental:
        feats = dict(feats, set_between_connects=True)
        out["cover"].append("parameters_set_between_connects")
    base = _base(netname)

    def viol(rule, backend, msg):
        out["violations"].append({"sig": dict(rule=rule, backend=backend, net=netname, **feats), "witness": wit, "msg": msg})

    for zero_g in ([False, True] if want_zero and seq else [False]):
        net = copy.deepcopy(base)
        try:
            _apply(net, seq, forms, zero_g, incremental)
        except Exception as e:
            viol("connect_or_set_raised", "-", f"{type(e).__name__}: {e}")
            return out
        # edges table shows the request
        if seq:
            ed = net.edges
            want = [(_gidx(base, p), _gidx(base, q), TYPES[t]) for p, q, t in seq]
            got = list(zip(ed.pre_global_comp_index.astype(int), ed.post_global_comp_index.astype(int), ed.type))
            if got != want:
                viol("edges_table", "-", f"got {got} want {want}")
            for gi, (p, q, t) in enumerate(seq):
                for key, val in _edge_values(p, q, t).items():
                    if zero_g and key.endswith(("_gS", "_gC")):
                        val = 0.0
                    if not np.isclose(float(ed.loc[gi, key]), val, rtol=1e-12, atol=0):
                        viol("edge_param_misplaced", "-", f"edge {gi} {key}={ed.loc[gi, key]} want {val}")
        model = _ref_model(netname, seq, zero_g)
        ref = refsim.simulate(model, DT, nsteps)["v"]
        ref0 = refsim.simulate(_ref_model(netname, []), DT, nsteps)["v"]
        moved = float(np.max(np.abs(ref - ref0)))
        for backend in BACKENDS:
            if len(seq) >= 6 and nsteps == 1 and backend == "jaxley.thomas":
                continue  # quick tier, many-edge family: thomas shares the synapse code path with stone
            out["evals"] += 1
            try:
                vs, _ = build.eager_step(net, "bwd_euler", backend, DT, nsteps=nsteps)
            except AssertionError as e:
                out["refusals"].append(f"{backend}:{netname}:AssertionError")
                continue
            except Exception as e:
                viol("step_raised", backend, f"{type(e).__name__}: {e}")
                continue
            out["cover"].append(f"accepted:{backend}")
            got = np.asarray(vs)
            err = float(np.max(np.abs(got - ref)))
            if not np.isfinite(err) or err > 1e-7 * (1 + float(np.max(np.abs(ref)))):
                viol("zero_g_not_isolated" if zero_g else "matches_refsim", backend, f"max_err={err}")
            if zero_g:
                err0 = float(np.max(np.abs(got - ref0)))
                if err0 > 1e-10:
                    viol("zero_g_not_isolated", backend, f"max dev from unconnected={err0}")
        if not zero_g and moved > 1e-6:
            out["digests"].append(digest(sorted(seq)) + ":" + netname)
        if not zero_g and seq and len(seq) <= (3 if nsteps == 1 else 2) and not incremental:
            # the SAME network object, after it was simulated: silence every synapse through its synapse-type view and simulate
            # again -- every cell must now behave as if simulated alone (values set through views must reach the next simulation)
            try:
                for t in sorted(set(t for _, _, t in seq)):
                    gkey = [k for k in _edge_values("A", "B", t) if k.endswith(("_gS", "_gC"))]
                    for k in gkey:
                        getattr(net, TYPES[t]).set(k, 0.0)
                for backend in BACKENDS:
                    try:
                        vs, _ = build.eager_step(net, "bwd_euler", backend, DT, nsteps=nsteps)
                    except AssertionError:
                        continue
                    out["evals"] += 1
                    out["cover"].append("silenced_through_views_after_a_simulation")
                    err0 = float(np.max(np.abs(np.asarray(vs) - ref0)))
                    if not np.isfinite(err0) or err0 > 1e-10:
                        viol("zero_g_not_isolated", backend, f"network re-used after a simulation, conductances set to 0 through type views: max dev from unconnected={err0}")
                    break
            except Exception as e:
                viol("connect_or_set_raised", "-", f"silencing through type views: {type(e).__name__}: {e}")
    if feats["autapse"]:
        out["cover"].append("autapse")
    if feats["fan_in"]:
        out["cover"].append("fan_in")
    if feats["interleaved"]:
        out["cover"].append("interleaved_types")
    if any(q in ("B", "C") for _, q, _ in seq):
        out["cover"].append("post_area_distinct")
    if any((p, q) == ("D", "A") for p, q, _ in seq):
        out["cover"].append("same_cell_pair")
    if len(seq) >= 6 and feats["interleaved"]:
        out["cover"].append("many_edges_interleaved")
    if seq:
        for gi in range(len(seq)):
            out["cover"].append("api:" + forms[gi % len(forms)])
        if want_zero:
            out["cover"].append("zero_g")
    return out


def work(item):
    res = {"violations": [], "cover": [], "refusals": [], "digests": [], "evals": 0, "transitions": 0}
    for h in item["histories"]:
        r = run_history(item["net"], h["seq"], h["forms"], want_zero=h.get("zero", True), nsteps=item["nsteps"], incremental=h.get("incremental", False))
        for k in ("violations", "cover", "refusals", "digests"):
            res[k] += r[k]
        res["evals"] += r["evals"]
        res["transitions"] += r["transitions"]
    res["sample"] = {"net": item["net"], "history": item["histories"][0]}
    return res


def _histories(tier):
    hs = [{"seq": [], "forms": API_FORMS, "zero": False}]
    for e in ALPHABET:
        for k in range(3):
            hs.append({"seq": [e], "forms": API_FORMS[k:] + API_FORMS[:k]})
    for a, b in itertools.product(ALPHABET, repeat=2):
        k = (ALPHABET.index(a) + ALPHABET.index(b)) % 3
        hs.append({"seq": [a, b], "forms": API_FORMS[k:] + API_FORMS[:k], "zero": tier != "quick" and a[2] != b[2]})
    if tier == "quick":
        # all type-interleavings of length 3 on a fixed fan-in/autapse pair pattern
        pats = [(("A", "B"), ("C", "B"), ("A", "A")), (("B", "A"), ("D", "A"), ("B", "C"))]
        for pat in pats:
            for ts in itertools.product(range(3), repeat=3):
                hs.append({"seq": [(p, q, t) for (p, q), t in zip(pat, ts)], "forms": API_FORMS, "zero": False})
    else:
        for a, b, c in itertools.product(ALPHABET, repeat=3):
            hs.append({"seq": [a, b, c], "forms": API_FORMS, "zero": False})
    return hs


LONG_PAIRS = [("A", "B"), ("C", "B"), ("B", "A"), ("A", "A"), ("D", "A"), ("B", "C"), ("C", "D"), ("D", "C"),
              ("A", "C"), ("C", "A"), ("D", "B"), ("B", "D")]


def _long_histories(tier):
    """Many-edge networks: ALL interleavings of synapse types over a fixed list of (pre, post) pairs (sorting/grouping of
    edges by type only shows its order-dependence with more than a handful of edges)."""
    hs = []
    if tier == "quick":
        fams = [(8, (0, 1))]
    else:
        fams = [(8, (0, 1)), (6, (0, 1, 2)), (10, (0, 2))]
    for L, types in fams:
        for ts in itertools.product(types, repeat=L):
            if len(set(ts)) < 2:
                continue
            hs.append({"seq": [(p, q, t) for (p, q), t in zip(LONG_PAIRS[:L], ts)], "forms": API_FORMS, "zero": False, "long": True})
    return hs


def explore(ctx):
    hs = _histories(ctx.tier) + _long_histories(ctx.tier)
    # the same histories with every edge customised right after its own connect (quick: those of length 2-3, every 8th long one)
    # (thorough: all of length 2, every 3rd of length 3, every 4th long one -- the full doubling does not finish in hours)
    def _inc(k, h):
        if len(h["seq"]) < 2:
            return False
        if h.get("long"):
            return k % (8 if ctx.tier == "quick" else 4) == 0
        return ctx.tier == "quick" or len(h["seq"]) == 2 or k % 3 == 0

    inc = [dict(h, incremental=True, zero=False) for k, h in enumerate(hs) if _inc(k, h)]
    hs = hs + inc
    nets = ["hetero", "level_homog"]
    ctx.note("alphabet_edges", len(ALPHABET))
    ctx.note("histories_per_net", len(hs))
    ctx.note("depth", 3)
    ctx.note("long_histories", "quick: all 254 two-type interleavings of 8 edges; thorough: additionally all three-type interleavings of 6 edges and all two-type (I, Tanh) interleavings of 10 edges")
    ctx.note("bound", "quick: all histories of length <=2 (342) + all type-interleavings of two length-3 pair patterns; "
                      "thorough: all 6174 histories of length <=3; x 2 base networks x accepting backends")
    items = []
    chunk = 6 if ctx.tier == "quick" else 24
    for net in nets:
        hs_net = [h for h in hs if not h.get("long") or net == "level_homog"]
        if ctx.tier == "quick" and net == "hetero":
            # heterogeneous network (only jax.sparse accepts it): pairs of equal type are covered on the other network
            hs_net = [h for h in hs_net if len(h["seq"]) != 2 or h["seq"][0][2] != h["seq"][1][2]]
        for i in range(0, len(hs_net), chunk):
            items.append({"net": net, "histories": hs_net[i:i + chunk], "nsteps": 1 if ctx.tier == "quick" else 2})
    ctx.map("work", items)
    states = set()
    for net in nets:
        for h in hs:
            if h.get("long") and net != "level_homog":
                continue
            states.add(net + ":" + digest(sorted(tuple(e) for e in h["seq"])))
    ctx.states = len(states)


def replay(w):
    r = run_history(w["net"], [tuple(e) for e in w["seq"]], w["forms"], nsteps=w.get("nsteps", NSTEPS), incremental=w.get("incremental", False))
    return r["violations"]
