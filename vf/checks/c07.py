"""C07 — simulations compose in time.

Model checking over *split histories*: every composition of n steps into parts >= 1 is executed as a
chain of integrate(..., all_states=..., return_states=True) calls on the real module and compared with
the one-shot run; returned states are compared with the manual init_fn/step_fn stepper key by key.
"""
from __future__ import annotations

import numpy as np

from vf import build, models, scope
from vf.runner import digest

ID = "C07"
LEVEL = "model_checking"
RULE = (
    "for each model x scheme x backend: all 2^(n-1) compositions of n steps (n=4 quick, 5 thorough) are run as chains of "
    "real integrate calls threading return_states -> all_states, with data-fed time-varying stimulus and clamp sliced per "
    "segment; checkpoint_lengths per segment in {None, exact factorisation, product > steps}; oracle: concatenated "
    "recordings == one-shot recordings (1e-10) and returned states == manual stepper state at the last returned time point; "
    "a state is (model, config, number of steps simulated so far, checkpoint variant); transitions are integrate calls"
)
REQUIRED_COVER = ["non_default_delta_t", "overlap_sample", "state_reads_current", "first_part_is_1", "last_part_is_1", "all_ones", "prod_gt_steps_with_return_states", "exact_factorisation",
                  "manual_stepper", "clamp", "synapse_model", "synaptic_state_clamped_on_second_type", "no_external_inputs", "callers_states_compared_after_one_step_run", "fwd_euler"]
ASSUMPTIONS = [
    "tolerance 1e-8 relative: programs of different scan length / checkpoint layout are fused differently and round-off (1e-16) is amplified by up to 1e6 through an action-potential upstroke at dt = 0.05; a wrong state, input slice or time step is off by >= 1e-4",
    "runs are 4-5 steps long; longer runs are not explored",
]
TOL = 1e-8       # scans of different length are compiled differently; round-off is amplified through spikes (see TOL_CKPT)
TOL_CKPT = 1e-8  # checkpointed scans are compiled differently (fusion / FMA): round-off differences of ~1e-16 are amplified by
                 # up to 1e6 through an action-potential upstroke; a wrong state or time step is off by >= 1e-4

CONFIGS = {
    "comp_hh": {"stim": lambda m: m, "clamp": ("HH_m", lambda m: m), "schemes": ["bwd_euler", "crank_nicolson", "fwd_euler"]},
    "cell_hh_leak": {"stim": lambda m: m.branch(0).comp(0), "clamp": ("v", lambda m: m.branch(1).comp(0)),
                     "schemes": ["bwd_euler", "crank_nicolson"]},
    "net_syn": {"stim": lambda m: m.cell(0).branch(0).comp(0), "clamp": ("v", lambda m: m.cell(1).branch(1).comp(0)),
                "schemes": ["bwd_euler", "crank_nicolson"]},
    # the same network with the clamp on a synaptic state of the SECOND synapse type (global edge index 1, index 0 within its type):
    # integrate and the public step function must both translate the edge index (seeded change S64)
    "net_syn_synclamp": {"model": "net_syn", "stim": lambda m: m.cell(0).branch(0).comp(0), "clamp": ("TestSynapse_c", lambda m: m.TestSynapse.edge(0)),
                         "schemes": ["bwd_euler"]},
    # no stimulus, no clamp, nothing data-fed: the run length comes from t_max alone (the zero-padding / surplus-step masking of
    # over-long checkpoint layouts then has no external input to hang on to; seeded change S84)
    "cell_hh_leak_noinput": {"model": "cell_hh_leak", "stim": None, "clamp": None, "schemes": ["bwd_euler"]},
    # a channel whose update reads a membrane current: the current entries of the returned state matter
    "cell_pump": {"stim": lambda m: m.branch(0).comp(0), "clamp": ("CaL_q", lambda m: m.branch(1).comp(0)),
                  "schemes": ["bwd_euler"]},
}
BACKENDS = ["jaxley.stone", "jaxley.thomas", "jax.sparse"]


def _ckpt(k, variant):
    if variant == "none":
        return None
    if variant == "exact":
        return {1: [1, 1], 2: [2, 1], 3: [1, 3], 4: [2, 2], 5: [5, 1]}[k]
    if variant == "over":
        return {1: [2, 1], 2: [2, 2], 3: [2, 2], 4: [3, 2], 5: [2, 3]}[k]
    raise ValueError(variant)


def _setup(model_name):
    model_name = CONFIGS[model_name].get("model", model_name)
    m = models.MODELS[model_name]()
    m.record("v", verbose=False)
    if model_name == "net_syn":
        m.TestSynapse.edge(0).record("TestSynapse_c", verbose=False)
        m.cell(0).branch(0).comp(0).record("HH_m", verbose=False)
        m.cell(1).branch(0).comp(0).record("i_HH", verbose=False)
        m.IonotropicSynapse.edge(0).record("IonotropicSynapse_s", verbose=False)
    elif model_name == "cell_hh_leak":
        m.branch(0).record("HH_h", verbose=False)
        m.branch(1).record("i_Leak", verbose=False)
    elif model_name == "cell_pump":
        m.record("CaAcc_c", verbose=False)
        m.branch(0).record("i_Ca", verbose=False)
    else:
        m.record("HH_n", verbose=False)
        m.record("i_HH", verbose=False)
    return m


def _inputs(m, model_name, lo, hi, n):
    import jax.numpy as jnp

    cfg = CONFIGS[model_name]
    if cfg["stim"] is None:
        return None, None
    stim = models.stim_series(n, 1)[lo:hi]
    ds = cfg["stim"](m).data_stimulate(jnp.asarray(stim))
    cname, cview = cfg["clamp"]
    series = models.clamp_series(n, 2) if cname == "v" else 0.2 + 0.5 * (np.arange(n) % 2)
    dc = cview(m).data_clamp(cname, jnp.asarray(series[lo:hi]))
    return ds, dc


def _integrate(m, model_name, lo, hi, n, scheme, backend, ck, all_states, dt=0.025):
    import jaxley as jx

    ds, dc = _inputs(m, model_name, lo, hi, n)
    kw = {} if dt == 0.025 else {"delta_t": dt}  # the default time step is passed implicitly, any other explicitly
    if ds is None:
        kw["t_max"] = (hi - lo - 1) * dt + dt / 2  # hi - lo steps
    recs, st = jx.integrate(m, data_stimuli=ds, data_clamps=dc, solver=scheme, voltage_solver=backend,
                            checkpoint_lengths=ck, all_states=all_states, return_states=True, **kw)
    return np.asarray(recs), st


def _manual(m, model_name, n, scheme, backend, dt=0.025):
    """Manual stepping with init_fn/step_fn; returns recordings-equivalent voltages and the final state dict."""
    import jax.numpy as jnp
    from jaxley.integrate import build_init_and_step_fn

    ds, dc = _inputs(m, model_name, 0, n, n)
    m.to_jax()
    init_fn, step_fn = build_init_and_step_fn(m, voltage_solver=backend, solver=scheme)
    states, params = init_fn([], None, None, dt)
    inds = {} if ds is None else {"i": ds[2].index.to_numpy(), dc[0]: dc[2].index.to_numpy()}
    for k in range(n):
        ext = {} if ds is None else {"i": jnp.asarray(ds[1])[:, k], dc[0]: jnp.asarray(dc[1])[:, k]}
        states = step_fn(states, params, ext, inds, dt)
    return {k: np.asarray(v) for k, v in states.items()}


def _state_diff(a, b):
    worst, key = 0.0, None
    if set(a) != set(b):
        return float("inf"), f"keys differ: {sorted(set(a) ^ set(b))}"
    for k in a:
        x, y = np.asarray(a[k], float), np.asarray(b[k], float)
        if x.shape != y.shape:
            return float("inf"), f"shape of {k}"
        if not np.array_equal(np.isnan(x), np.isnan(y)):
            return float("inf"), f"NaN pattern of {k}"
        ok = ~np.isnan(y)
        d = float(np.max(np.abs(x[ok] - y[ok]) / (1 + np.abs(y[ok])))) if ok.any() else 0.0
        if not np.isfinite(d):
            d = float("inf")
        if d > worst:
            worst, key = d, k
    return worst, key


def run_config(model_name, scheme, backend, n, variants, comps=None, dt=0.025):
    out = {"violations": [], "cover": [], "refusals": [], "digests": [], "evals": 0, "transitions": 0}
    m = _setup(model_name)
    base_wit = {"model": model_name, "scheme": scheme, "backend": backend, "n": n, "dt": dt}

    def viol(rule, variant, comp, msg):
        out["violations"].append({
            "sig": {"rule": rule, "prod_gt_steps": variant == "over", "checkpointed": variant != "none", "model": model_name,
                    "default_dt": dt == 0.025,
                    "scheme": scheme, "backend_family": "sparse" if backend == "jax.sparse" else "jaxley"},
            "witness": dict(base_wit, variant=variant, composition=list(comp)), "msg": msg})

    try:
        one, st_one = _integrate(m, model_name, 0, n, n, scheme, backend, None, None, dt)
        out["transitions"] += 1
    except Exception as e:
        out["refusals"].append(f"{backend}:{scheme}:{model_name}:{type(e).__name__}")
        return out
    if not np.all(np.isfinite(one)):
        viol("finite", "none", (n,), "one-shot run is not finite")
        return out
    man = _manual(m, model_name, n, scheme, backend, dt)
    if dt != 0.025:
        out["cover"].append("non_default_delta_t")
    d, key = _state_diff({k: np.asarray(v) for k, v in st_one.items()}, man)
    out["cover"].append("manual_stepper")
    if d > TOL:
        viol("returned_state_is_last_time_point", "none", (n,), f"one-shot returned state vs manual stepper: {d} at {key}")
    out["cover"].append("clamp")
    if model_name in ("net_syn", "net_syn_synclamp"):
        out["cover"].append("synapse_model")
    if model_name == "net_syn_synclamp":
        out["cover"].append("synaptic_state_clamped_on_second_type")
    if CONFIGS[model_name]["stim"] is None:
        out["cover"].append("no_external_inputs")
    if model_name == "cell_pump":
        out["cover"].append("state_reads_current")
    if scheme == "fwd_euler":
        out["cover"].append("fwd_euler")
    for variant in variants:
        for comp in (comps or list(scope.compositions(n))):
            if variant != "none" and len(comp) == 1 and variant == "exact" and False:
                continue
            pieces, pieces_full, st, lo, ok = [], [], None, 0, True
            for j, k in enumerate(comp):
                st_in = st
                st_in_copy = None if st is None else {kk: np.array(vv) for kk, vv in st.items()}
                try:
                    rec, st = _integrate(m, model_name, lo, lo + k, n, scheme, backend, _ckpt(k, variant), st, dt)
                except Exception as e:
                    viol("segment_raised", variant, comp, f"{type(e).__name__}: {str(e)[:200]}")
                    ok = False
                    break
                out["transitions"] += 1
                if st_in is not None:
                    # the states a run is continued from belong to the caller (they may be continued from again): untouched
                    out["cover"].append("callers_states_compared")
                    if k == 1:
                        out["cover"].append("callers_states_compared_after_one_step_run")
                    changed = [kk for kk in st_in_copy if kk not in st_in or not np.array_equal(np.asarray(st_in[kk]), st_in_copy[kk], equal_nan=True)]
                    if changed or set(st_in) != set(st_in_copy):
                        viol("integrate_modifies_callers_states", variant, comp,
                             f"segment {j} ({k} steps): the all_states dict passed in was changed at {sorted(changed)[:5]}")
                if j > 0:
                    # the first returned column of a continued run is the state it was started from = last column of the previous run
                    prev_last = pieces_full[-1][:, -1]
                    d0 = float(np.max(np.abs(rec[:, 0] - prev_last) / (1 + np.abs(prev_last))))
                    out["cover"].append("overlap_sample")
                    if not np.isfinite(d0) or d0 > (TOL if variant == "none" else TOL_CKPT):
                        bad = int(np.argmax(np.abs(rec[:, 0] - prev_last)))
                        viol("overlap_sample", variant, comp,
                             f"segment {j}: column 0 differs from the previous segment's last column by {d0} (row {bad}: "
                             f"{m.recordings.state.iloc[bad]})")
                pieces_full.append(rec)
                pieces.append(rec if j == 0 else rec[:, 1:])
                lo += k
                # state after this segment must be the state at the last returned time point
                if variant != "none":
                    want_v = one[: len(m.nodes), lo] if True else None
                    got_v = np.asarray(st["v"])
                    if float(np.max(np.abs(got_v - want_v))) > TOL_CKPT * (1 + float(np.max(np.abs(want_v)))):
                        viol("returned_state_is_last_time_point", variant, comp,
                             f"after segment {j} ({k} steps, ckpt {_ckpt(k, variant)}): returned v differs from recording at step {lo} by "
                             f"{float(np.max(np.abs(got_v - want_v)))}")
                        if variant == "over":
                            out["cover"].append("prod_gt_steps_with_return_states")
            out["evals"] += 1
            if not ok:
                continue
            cat = np.concatenate(pieces, axis=1)
            if cat.shape != one.shape:
                viol("composition", variant, comp, f"shape {cat.shape} vs {one.shape}")
                continue
            err = float(np.max(np.abs(cat - one) / (1 + np.abs(one))))
            if not np.isfinite(err) or err > (TOL if variant == "none" else TOL_CKPT):
                viol("composition", variant, comp, f"concatenated segments differ from one-shot by {err}")
            d, key = _state_diff({k: np.asarray(v) for k, v in st.items()}, man)
            if d > (TOL if variant == "none" else TOL_CKPT):
                viol("returned_state_is_last_time_point", variant, comp, f"final returned state vs manual stepper: {d} at {key}")
            out["digests"].append(digest([model_name, scheme, backend, variant, list(comp)]))
            if comp[0] == 1:
                out["cover"].append("first_part_is_1")
            if comp[-1] == 1:
                out["cover"].append("last_part_is_1")
            if len(comp) == n:
                out["cover"].append("all_ones")
            if variant == "over":
                out["cover"].append("prod_gt_steps_with_return_states")
            if variant == "exact":
                out["cover"].append("exact_factorisation")
    out["sample"] = dict(base_wit, variants=variants, compositions=[list(c) for c in scope.compositions(n)][:4])
    return out


def work(item):
    comps = [tuple(c) for c in item["comps"]] if item.get("comps") else None
    return run_config(item["model"], item["scheme"], item["backend"], item["n"], item["variants"], comps=comps, dt=item.get("dt", 0.025))


def explore(ctx):
    n = 4 if ctx.tier == "quick" else 5
    items = []
    for model_name, cfg in CONFIGS.items():
        for scheme in cfg["schemes"]:
            for backend in BACKENDS:
                if scheme == "fwd_euler" and backend != "jaxley.stone":
                    continue
                if ctx.tier == "quick":
                    full = backend == "jaxley.stone" and scheme == "bwd_euler"
                    if full:
                        for v in ["none", "exact", "over"]:
                            items.append({"model": model_name, "scheme": scheme, "backend": backend, "n": n, "variants": [v]})
                    else:
                        items.append({"model": model_name, "scheme": scheme, "backend": backend, "n": n, "variants": ["none"]})
                else:
                    for v in ["none", "exact", "over"]:
                        items.append({"model": model_name, "scheme": scheme, "backend": backend, "n": n, "variants": [v]})
    # time step: the default (0.025, passed implicitly) and non-default ones (passed explicitly); checkpointed variants use a
    # non-default step on the first model and the default elsewhere, un-checkpointed ones rotate over the backends
    DTS = {"jaxley.stone": 0.025, "jaxley.thomas": 0.05, "jax.sparse": 0.0125}
    for it in items:
        if it["variants"] != ["none"]:
            it["dt"] = 0.05 if it["model"] in ("comp_hh", "net_syn") else 0.025
        else:
            it["dt"] = DTS[it["backend"]]
    # split every configuration's compositions into two work items (load balance)
    allc = [list(c) for c in scope.compositions(n)]
    half = len(allc) // 2
    items = [dict(it, comps=part) for it in items for part in (allc[:half], allc[half:])]
    ctx.note("n_steps", n)
    ctx.note("compositions", 2 ** (n - 1))
    ctx.note("configs", len(items))
    res = ctx.map("work", items)
    # states: (config, steps simulated so far, variant) reached by some chain
    ctx.states = sum((n + 1) for _ in items) // 2


def replay(w):
    r = run_config(w["model"], w["scheme"], w["backend"], w["n"], [w["variant"]], comps=[tuple(w["composition"])], dt=w.get("dt", 0.025))
    return r["violations"]
