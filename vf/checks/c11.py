"""C11 -- views select exactly the described compartments; mutators through a view are confined to it.

Bounded-exhaustive exploration (model checking) of the real `Module`/`View` implementation against the
boring reference `vf.refviews`: a selection chain is a transition sequence over views.  EVERY chain of the
stated families is enumerated (driver side, with the reference model), executed on the implementation and
compared with the reference (node set in order, dense local ranks, edge set, scope, refusal iff empty,
lazy `[]`, iteration).  Part B applies every mutator through every view of a smaller exhaustive family
on a fresh deepcopy and diffs a canonical snapshot of the base module.
"""
from __future__ import annotations

import copy
import itertools

import numpy as np

from vf import refviews as rvw
from vf.refviews import LEVELS, RefModule
from vf.runner import digest

ID = "C11"
LEVEL = "model_checking"
RULE = (
    "modules {Compartment, Branch(3), Cell ncomp[2,1,3], Network of cells ncomp[2,1] and [1,3,2] with 3 synapses of 2 "
    "types (one inside a cell), two groups straddling branches, Leak on a strict subset, pre-existing recording/"
    "stimulus/clamps}. Part A: ALL chains s1..sk (k<=depth bound) with s_i drawn from a tier- and position-dependent "
    "step alphabet (FULL>MID>SMALL>TINY) over {cell,branch,comp} x {int,np.int64,list,ndarray,range,slice>=0,bool "
    "mask where unambiguous,'all'} x scope mode {inherit,.scope('local'),.scope('global')} plus loc(0, interior, "
    "boundary, 1; float/list/array), select(nodes|edges|both, sorted), group / channel / synapse-type attributes, "
    "edge(), bare scope switches and module-level set_scope('global'); any order of levels. Each chain is run on the "
    "implementation and compared with the comprehension reference: node ids in order, global tuples, dense local "
    "ranks, edge ids, scope, refusal iff the denoted set is empty; `A[i,j,k]` for every consecutive-level suffix and "
    "`for x in view`/.cells/.branches/.comps agree with the method form. Part B: every chain of depth<=2 of a smaller "
    "alphabet x every mutator {set node/channel/edge key, insert new/existing channel, record node/edge state, "
    "stimulate, clamp node/edge state, add_to_group new/existing, move}: snapshot diff of the base module must be "
    "confined to the view's rows. A case is distinct if the reached view (module, node rows, edge rows, scope) is new."
)
REQUIRED_COVER = [
    "scope_switch_mid_chain",
    "view_excludes_last_comp",
    "local_rank_differs_from_global",
    "edge_selection",
    "edges_need_both_ends",
    "group_view",
    "channel_view",
    "synapse_type_view",
    "loc_interior",
    "loc_boundary",
    "bool_mask",
    "unsorted_select",
    "lazy_getitem",
    "lazy_getitem_global_scope",
    "iteration",
    "empty_refused",
    "module_set_scope_global",
    "mutator:set",
    "mutator:set_edge",
    "mutator:insert",
    "mutator_through_held_view",
    "add_to_group_through_held_view_after_group_changed",
    "mutator:record",
    "mutator:stimulate",
    "mutator:clamp",
    "mutator:add_to_group",
    "mutator:move",
]
ASSUMPTIONS = [
    "a loc value exactly on an interior compartment boundary may select either neighbour; such steps are only used as "
    "the last step of a chain (the resulting state is not unique)",
    "boolean masks are only generated where the k-th entity in view has index k in the active scope and all entities "
    "share one parent (positional == ranked); jaxley only checks that len(mask) equals one of (*shape, n_edges)",
    "negative indices/slices, duplicate indices, loc('all') and integer loc values are outside the alphabet",
    "local-scope edge() is only meaningful directly on a synapse-type view (jaxley assigns local_edge_index there); "
    "at the module it raises KeyError (refusal); after further narrowing the column is stale, not generated",
    "select() takes labels of the base tables; labels outside the current view raise KeyError (refusal allowed; the "
    "filtered view would be accepted too)",
    "order of rows: level/loc/channel filters keep the order of the parent view, select(nodes) keeps the given order "
    "(ascending with sorted=True), group views and endpoint sets of edge selections are ascending; edges of a node "
    "selection are ascending, select(edges) keeps the given order",
    "exceptions raised by `[]` / `for x in view` on a view that is not at a hierarchy level (after scope(), select, "
    "loc, group, channel, synapse type, edge) are counted as refusals, not as disagreements",
    "set on a channel parameter / edge parameter may skip rows of the view that do not carry the mechanism; record/"
    "clamp of an edge state may or may not include edges of another type that are in view",
    "move: the docstring says 'move cells or networks'; accepted are shifts of at least all branches in view and at "
    "most all branches of the cells in view, each by exactly (x,y,z); update_nodes=True is not covered",
    "the data values of the selected rows are not part of the oracle (C12 covers table contents); any exception type "
    "is accepted as a refusal",
    "families of equal length may overlap (a chain that belongs to two alphabets' products is executed twice); "
    "distinct views are counted by digest",
    "the test modules are themselves assembled through views (select + connect/add_to_group/insert/set/record/"
    "stimulate/clamp); a module that differs from its description is reported as a build_mismatch violation",
]

SYN_A, SYN_B = "IonotropicSynapse", "TestSynapse"

MODELS = {
    "comp": {"name": "comp", "kind": "comp", "groups": {"ga": [0], "gb": [0]}, "channels": {"Leak": [0]}},
    "branch": {
        "name": "branch", "kind": "branch", "ncomp": 3,
        "groups": {"ga": [0, 2], "gb": [1]}, "channels": {"Leak": [1, 2]},
    },
    "cell": {
        "name": "cell", "kind": "cell", "parents": [-1, 0, 0], "ncomps": [2, 1, 3],
        "groups": {"ga": [1, 2, 3], "gb": [0, 5]}, "channels": {"Leak": [1, 3, 4]},
    },
    "net": {
        "name": "net", "kind": "net",
        "cells": [{"parents": [-1, 0], "ncomps": [2, 1]}, {"parents": [-1, 0, 0], "ncomps": [1, 3, 2]}],
        "synapses": [
            {"pre": [0, 0, 1], "post": [1, 1, 2], "type": SYN_A},  # e0: node 1 -> 6 (cell 0 -> cell 1)
            {"pre": [1, 2, 0], "post": [0, 1, 0], "type": SYN_B},  # e1: node 7 -> 2 (cell 1 -> cell 0)
            {"pre": [1, 0, 0], "post": [1, 2, 1], "type": SYN_A},  # e2: node 3 -> 8 (inside cell 1)
        ],
        "groups": {"ga": [1, 2, 4], "gb": [4, 5, 7]},
        "channels": {"Leak": [1, 2, 3, 4, 8]},
    },
}
# the same network, but Leak is inserted into cell 1 only and BEFORE the cells are assembled: the network's flag column then comes
# out of the concatenation of the cells' tables (object dtype, not bool) — the path behind defect F26
MODELS["nethet"] = dict(MODELS["net"], name="nethet", channels={"Leak": [3, 4, 8]}, pre_channels=True)
# per-model constants used by the alphabets (global labels)
CONST = {
    "comp": {"gl_branch": [0], "gl_comp": [0], "sel": [0], "sel_unsorted": [0], "gl_int": 0, "sel_small": [0]},
    "branch": {"gl_branch": [0], "gl_comp": [0, 2], "sel": [0, 2], "sel_unsorted": [2, 0], "gl_int": 2, "sel_small": [1]},
    "cell": {"gl_branch": [0, 2], "gl_comp": [1, 2, 4], "sel": [1, 2, 3, 5], "sel_unsorted": [4, 0, 3], "gl_int": 2,
             "sel_small": [3, 4]},
    "net": {"gl_branch": [1, 3], "gl_comp": [2, 4, 5, 7], "sel": [1, 2, 4, 5, 6, 7], "sel_unsorted": [6, 1, 4],
            "gl_int": 3, "sel_small": [3, 8]},
}


CONST["nethet"] = CONST["net"]


# ============================================================================= model construction (worker side)
class Model:
    def __init__(self, name):
        self.name = name
        self.desc = MODELS[name]
        self.ref = RefModule(self.desc)
        self.build_problem = None
        try:
            self.module = build_module(self.desc, self.ref)
        except Exception as e:  # jaxley refused a documented construction step
            self.module = None
            self.build_problem = ("raised", f"{type(e).__name__}: {str(e)[:200]}")
            return
        self.build_problem = verify_build(self.module, self.ref)
        self.snap = snapshot(self.module)


_CACHE = {}


def get_model(name) -> Model:
    if name not in _CACHE:
        _CACHE[name] = Model(name)
    return _CACHE[name]


def build_module(desc, ref):
    """Public API only."""
    from vf import build, env

    env.setup()
    import jax.numpy as jnp
    import jaxley as jx
    from jaxley.channels import Leak
    from jaxley.connect import connect
    from jaxley.synapses import IonotropicSynapse, TestSynapse

    k = desc["kind"]
    if k == "comp":
        mod = jx.Compartment()
    elif k == "branch":
        mod = jx.Branch([jx.Compartment()] * desc["ncomp"])
    elif k == "cell":
        mod = build.cell_of(desc["parents"], desc["ncomps"])
    else:
        cells = [build.cell_of(c["parents"], c["ncomps"]) for c in desc["cells"]]
        if desc.get("pre_channels"):
            off = 0
            for cell in cells:
                nloc = len(cell.nodes)
                for c, ids in desc["channels"].items():
                    loc_ids = [i - off for i in ids if off <= i < off + nloc]
                    if loc_ids:
                        cell.select(nodes=loc_ids).insert(Leak())
                        cell.select(nodes=loc_ids).set("Leak_gLeak", 2e-4)
                off += nloc
        mod = jx.Network(cells)
        syn = {SYN_A: IonotropicSynapse, SYN_B: TestSynapse}
        for s in desc["synapses"]:
            # endpoints by row label (select) so that the construction does not depend on the code under test more
            # than necessary; verify_build() compares the result with the description
            pre = mod.select(nodes=[ref.node_of_local(*s["pre"])])
            post = mod.select(nodes=[ref.node_of_local(*s["post"])])
            connect(pre, post, syn[s["type"]]())
    mod.compute_xyz()
    for g, ids in desc["groups"].items():
        # two add_to_group calls per group (first creates, second unions)
        mod.select(nodes=ids[:1]).add_to_group(g)
        if len(ids) > 1:
            mod.select(nodes=ids[1:]).add_to_group(g)
    for c, ids in desc["channels"].items():
        assert c == "Leak"
        if desc.get("pre_channels"):
            continue
        mod.select(nodes=ids).insert(Leak())
        mod.select(nodes=ids).set("Leak_gLeak", 2e-4)  # non-default so that re-insertion is visible
    # pre-existing recordings / stimuli / clamps so that the mutators hit the "append" paths
    n = ref.n
    mod.select(nodes=[min(1, n - 1)]).record("v", verbose=False)
    mod.select(nodes=[0]).stimulate(jnp.asarray([0.1, 0.2, 0.3]), verbose=False)
    mod.select(nodes=[n - 1]).clamp("v", jnp.asarray([-60.0, -61.0, -62.0]), verbose=False)
    if k == "net":
        mod.select(edges=[0]).clamp(SYN_A + "_s", jnp.asarray([0.5, 0.6, 0.7]), verbose=False)
        mod.select(edges=[2]).record(SYN_A + "_s", verbose=False)
    return mod


def verify_build(mod, ref):
    """The module was assembled through views (select + connect/add_to_group/insert/set/record/stimulate/clamp);
    it must be exactly the described one. Returns None or (what, message)."""
    n = ref.n
    cols = ["global_cell_index", "global_branch_index", "global_comp_index"]
    rows = [tuple(int(x) for x in r) for r in mod.nodes[cols].to_numpy()]
    if rows != ref.rows or list(mod.nodes.index) != list(range(n)):
        return ("rows", f"{rows} != {ref.rows}")
    ed = []
    if len(mod.edges):
        ed = [(int(a), int(b), str(t)) for a, b, t in
              zip(mod.edges["pre_global_comp_index"], mod.edges["post_global_comp_index"], mod.edges["type"])]
    if ed != ref.edges or list(mod.edges.index) != list(range(len(ref.edges))):
        return ("edges", f"{ed} != {ref.edges}")
    got = {k: sorted(int(x) for x in v) for k, v in mod.groups.items()}
    if got != {k: sorted(v) for k, v in ref.groups.items()}:
        return ("groups", f"{got} != {ref.groups}")
    for c, ids in ref.channels.items():
        have = set(int(i) for i in mod.nodes.index[mod.nodes[c].astype(bool)])
        if have != ids:
            return ("channel", f"{c} on {sorted(have)}, inserted on {sorted(ids)}")
        g = [None if x != x else float(x) for x in mod.nodes[c + "_gLeak"].tolist()]
        want = [2e-4 if i in ids else None for i in range(n)]
        if g != want:
            return ("channel_params", f"{c}_gLeak {g} != {want}")
    if mod._scope != "local":
        return ("scope", mod._scope)
    snap = snapshot(mod)
    recs = [(min(1, n - 1), "v")] + ([(2, SYN_A + "_s")] if ref.kind == "net" else [])
    if snap["recs"] != sorted(recs):
        return ("recordings", f"{snap['recs']} != {sorted(recs)}")
    ext = {"i": {"inds": [0], "data": [[0.1, 0.2, 0.3]]}, "v": {"inds": [n - 1], "data": [[-60.0, -61.0, -62.0]]}}
    if ref.kind == "net":
        ext[SYN_A + "_s"] = {"inds": [0], "data": [[0.5, 0.6, 0.7]]}
    if snap["ext"] != ext:
        return ("externals", f"{snap['ext']} != {ext}")
    return None


# ============================================================================= canonical snapshot + diff (Part B)
def _norm(x):
    if x is None:
        return None
    if isinstance(x, (bool, np.bool_)):
        return bool(x)
    if isinstance(x, (int, np.integer)):
        return int(x)
    if isinstance(x, (float, np.floating)):
        return None if np.isnan(x) else float(x)
    if isinstance(x, str):
        return x
    try:
        if x != x:
            return None
    except Exception:
        pass
    return repr(x)


def _table(df):
    return {
        "index": [_norm(i) for i in df.index.tolist()],
        "cols": {str(c): [_norm(x) for x in df[c].tolist()] for c in df.columns},
    }


def snapshot(mod):
    recs = []
    if len(mod.recordings):
        recs = sorted((int(i), str(s)) for i, s in zip(mod.recordings["rec_index"], mod.recordings["state"]))
    ext = {}
    for k in mod.externals:
        data = np.asarray(mod.externals[k])
        ext[k] = {
            "inds": [int(i) for i in np.asarray(mod.external_inds[k]).tolist()],
            "data": [[float(x) for x in row] for row in data.tolist()],
        }
    for k in mod.external_inds:
        if k not in ext:
            ext[k] = {"inds": [int(i) for i in np.asarray(mod.external_inds[k]).tolist()], "data": None}
    return {
        "nodes": _table(mod.nodes),
        "edges": _table(mod.edges),
        "recs": recs,
        "ext": ext,
        "groups": {k: [int(x) for x in np.asarray(v).tolist()] for k, v in mod.groups.items()},
        "xyzr": [[[_norm(x) for x in p] for p in np.asarray(b).tolist()] for b in mod.xyzr],
        "scope": mod._scope,
        "channels": [c._name for c in mod.channels],
    }


def _table_diff(a, b):
    """rows / columns whose content changed; a cell of a new column counts as unchanged if it is NaN/False."""
    rows, cols = set(), set()
    structural = []
    if a["index"] != b["index"]:
        structural.append("index")
    for c in a["cols"]:
        if c not in b["cols"]:
            structural.append(f"column_removed:{c}")
    if structural:
        return rows, cols, structural
    for c, vb in b["cols"].items():
        va = a["cols"].get(c)
        for i, lab in enumerate(b["index"]):
            old = va[i] if va is not None else None
            new = vb[i]
            if va is None and new in (None, False):
                continue
            if old != new:
                rows.add(lab)
                cols.add(c)
    return rows, cols, structural


def diff(a, b):
    d = {}
    nr, nc, ns = _table_diff(a["nodes"], b["nodes"])
    er, ec, es = _table_diff(a["edges"], b["edges"])
    d["node_rows"], d["node_cols"], d["node_struct"] = nr, nc, ns
    d["edge_rows"], d["edge_cols"], d["edge_struct"] = er, ec, es
    sa, sb = set(a["recs"]), set(b["recs"])
    d["recs_added"], d["recs_removed"] = sb - sa, sa - sb
    d["recs_dupes"] = len(b["recs"]) != len(sb)
    d["ext"] = {}
    for k in set(a["ext"]) | set(b["ext"]):
        ea = a["ext"].get(k, {"inds": [], "data": []})
        eb = b["ext"].get(k)
        if eb is None:
            d["ext"][k] = {"removed": True}
            continue
        na = len(ea["inds"])
        prefix_ok = eb["inds"][:na] == ea["inds"] and (eb["data"] or [])[: len(ea["data"] or [])] == (ea["data"] or [])
        d["ext"][k] = {
            "removed": False,
            "prefix_ok": prefix_ok,
            "added_inds": eb["inds"][na:],
            "added_data": (eb["data"] or [])[len(ea["data"] or []):],
            "consistent": eb["data"] is not None and len(eb["data"]) == len(eb["inds"]),
        }
    d["ext"] = {k: v for k, v in d["ext"].items() if v.get("removed") or not v["prefix_ok"] or v["added_inds"] or v["added_data"] or not v["consistent"]}
    d["groups"] = {}
    for k in set(a["groups"]) | set(b["groups"]):
        if sorted(a["groups"].get(k, [])) != sorted(b["groups"].get(k, [None])):
            d["groups"][k] = b["groups"].get(k)
    d["xyzr"] = {}
    if len(a["xyzr"]) != len(b["xyzr"]):
        d["xyzr"]["struct"] = True
    else:
        for i, (xa, xb) in enumerate(zip(a["xyzr"], b["xyzr"])):
            if xa != xb:
                d["xyzr"][i] = (xa, xb)
    d["scope"] = a["scope"] != b["scope"]
    d["channels"] = a["channels"] != b["channels"]
    return d


def diff_is_empty(d, ignore=()):
    for k, v in d.items():
        if k in ignore:
            continue
        if v:
            return False
    return True


# ============================================================================= executing steps on the implementation
def mk_idx(idx):
    f = idx["f"]
    if f == "all":
        return "all"
    if f == "int":
        return int(idx["v"])
    if f == "npint":
        return np.int64(idx["v"])
    if f == "list":
        return [int(x) for x in idx["v"]]
    if f == "array":
        return np.asarray(idx["v"], dtype=np.int64)
    if f == "range":
        return range(*idx["v"])
    if f == "slice":
        return slice(*idx["v"])
    if f == "mask":
        return np.asarray(idx["v"], dtype=bool)
    raise ValueError(f)


def mk_at(st):
    vals = [a / b for a, b in st["at"]]
    form = st.get("form", "float")
    if form == "float":
        assert len(vals) == 1
        return float(vals[0])
    if form == "npfloat":
        return np.float64(vals[0])
    if form == "list":
        return [float(x) for x in vals]
    return np.asarray(vals, dtype=np.float64)


def apply_impl(v, st):
    """Returns (view, number of operations executed)."""
    n = 0
    if st.get("scope"):
        v = v.scope(st["scope"])
        n += 1
    op = st["op"]
    if op == "scope":
        return v, n
    n += 1
    if op in LEVELS:
        return getattr(v, op)(mk_idx(st["idx"])), n
    if op == "loc":
        return v.loc(mk_at(st)), n
    if op == "select":
        kw = {}
        if "nodes" in st:
            kw["nodes"] = mk_idx(st["nodes"])
        if "edges" in st:
            kw["edges"] = mk_idx(st["edges"])
        if st.get("sorted"):
            kw["sorted"] = True
        return v.select(**kw), n
    if op in ("group", "channel", "syntype"):
        return getattr(v, st["name"]), n
    if op == "edge":
        return v.edge(mk_idx(st["idx"])), n
    raise ValueError(op)


PLURAL = {"cell": "cells", "branch": "branches", "comp": "comps"}
GCOLS = ["global_cell_index", "global_branch_index", "global_comp_index"]
LCOLS = ["local_cell_index", "local_branch_index", "local_comp_index"]


def check_view(v, rv):
    """None if the implementation view equals the reference view, else (rule, observed, expected)."""
    if v is None or not hasattr(v, "nodes"):
        return ("not_a_view", repr(v), list(rv.nodes))
    try:
        return _check_view(v, rv)
    except Exception as e:  # a view whose tables cannot even be read
        return ("malformed_view", f"{type(e).__name__}: {str(e)[:120]}", list(rv.nodes))


def _check_view(v, rv):
    got = [int(i) for i in v.nodes.index.tolist()]
    if got != list(rv.nodes):
        if sorted(got) == sorted(rv.nodes):
            return ("node_order", got, list(rv.nodes))
        return ("node_set", got, list(rv.nodes))
    niv = [int(i) for i in np.asarray(v._nodes_in_view).tolist()]
    if niv != got:
        return ("nodes_in_view_attr", niv, got)
    g = [tuple(int(x) for x in r) for r in v.nodes[GCOLS].to_numpy()]
    if g != rv.rows():
        return ("global_tuples", g, rv.rows())
    loc = [tuple(int(x) for x in r) for r in v.nodes[LCOLS].to_numpy()]
    if loc != rv.ranks():
        return ("local_ranks", loc, rv.ranks())
    ge = [int(i) for i in v.edges.index.tolist()]
    if ge != list(rv.edges):
        if sorted(ge) == sorted(rv.edges):
            return ("edge_order", ge, list(rv.edges))
        return ("edge_set", ge, list(rv.edges))
    eiv = [int(i) for i in np.asarray(v._edges_in_view).tolist()]
    if eiv != ge:
        return ("edges_in_view_attr", eiv, ge)
    if v._scope != rv.scope:
        return ("scope", v._scope, rv.scope)
    return None


# ============================================================================= alphabets (driver side, pure reference)
def I(v): return {"f": "int", "v": v}
def NI(v): return {"f": "npint", "v": v}
def LI(*v): return {"f": "list", "v": list(v)}
def AR(*v): return {"f": "array", "v": list(v)}
def RG(a, b, c=1): return {"f": "range", "v": [a, b, c]}
def SL(a, b, c=None): return {"f": "slice", "v": [a, b, c]}
def MK(v): return {"f": "mask", "v": [bool(x) for x in v]}
ALL = {"f": "all"}


def lv(op, idx, sc=None):
    return {"op": op, "idx": idx, "scope": sc}


def loc(ats, form="float", sc=None):
    return {"op": "loc", "at": [list(a) for a in ats], "form": form, "scope": sc}


def masks_for(rv, what, scope, how_many):
    n = rv.mask_ok(what, scope)
    if n is None:
        return []
    pats = []
    if n >= 2:
        pats.append([True] + [False] * (n - 1))  # first only
        pats.append([False] + [True] * (n - 1))  # all but the first
        if n >= 3:
            pats.append([i % 2 == 0 for i in range(n)])
            pats.append([i == n - 1 for i in range(n)])  # last only
    else:
        pats.append([True])
    return [MK(p) for p in pats[:how_many]]


def alphabet(rv, R):
    """All steps enabled in reference state `rv` at richness R in {"FULL","MID","SMALL","TINY"}."""
    m = rv.m
    C = CONST[m.desc["name"]]
    S = []
    eff = rv.scope
    lvls = m.levels
    net = m.kind == "net"
    glb, glc = C["gl_branch"], C["gl_comp"]

    def gl_list(op):
        return {"cell": [0, 1], "branch": glb, "comp": glc}[op]

    if R == "FULL":
        for op in LEVELS:
            if op not in lvls:
                if op == "cell" or (op == "branch" and m.kind == "branch") or m.kind == "comp":
                    S.append(lv(op, I(0)))  # unsupported level -> refusal
                continue
            inherit = [I(0), I(1), I(2), NI(1), NI(0), LI(0, 1), LI(0, 2), LI(2), AR(1, 2), AR(0), RG(0, 2), RG(1, 3),
                       SL(0, 2), SL(1, None), SL(0, None, 2), SL(None, 1), ALL, I(7), LI(*gl_list(op))]
            inherit += masks_for(rv, op, eff, 4)
            S += [lv(op, x) for x in inherit]
            local = [I(1), NI(0), LI(0, 2), AR(1, 2), RG(1, 3), SL(0, 2), SL(1, None), ALL]
            local += masks_for(rv, op, "local", 2)
            S += [lv(op, x, "local") for x in local]
            gl = [I(0), I(C["gl_int"]), NI(4), NI(1), LI(*gl_list(op)), AR(*gl_list(op)), RG(2, 5), RG(1, 8, 3), SL(3, None),
                  SL(1, 8, 3), SL(0, 2), ALL]
            gl += masks_for(rv, op, "global", 2)
            S += [lv(op, x, "global") for x in gl]
        # loc: ends, interior, boundaries; float / list / array
        S += [loc([(0, 1)]), loc([(1, 1)]), loc([(2, 5)]), loc([(3, 5)]), loc([(9, 10)]), loc([(1, 2)]), loc([(1, 3)]),
              loc([(2, 3)]), loc([(1, 10)], "npfloat"), loc([(0, 1), (1, 1)], "list"), loc([(2, 5), (9, 10)], "array"),
              loc([(0, 1), (1, 2), (1, 1)], "list"), loc([(3, 5)], "float", "global"), loc([(1, 1)], "float", "local"),
              loc([(1, 4), (3, 4)], "array", "global")]
        S += [
            {"op": "select", "nodes": LI(*C["sel"])}, {"op": "select", "nodes": AR(*C["sel_small"])},
            {"op": "select", "nodes": LI(*C["sel_unsorted"])}, {"op": "select", "nodes": LI(*C["sel_unsorted"]), "sorted": True},
            {"op": "select", "nodes": ALL}, {"op": "select", "nodes": I(0)}, {"op": "select", "nodes": NI(m.n - 1)},
            {"op": "select", "nodes": RG(1, 4)}, {"op": "select", "nodes": SL(1, None, 2)}, {"op": "select", "nodes": SL(0, 2)},
            {"op": "select", "nodes": LI(*C["sel"]), "scope": "global"}, {"op": "select", "nodes": I(m.n)},
        ]
        S += [{"op": "select", "nodes": x} for x in masks_for(rv, "nodes", eff, 3)]
        for g in sorted(m.groups):
            S.append({"op": "group", "name": g})
        S.append({"op": "group", "name": "ga", "scope": "global"})
        for c in sorted(m.channels):
            S.append({"op": "channel", "name": c})
            S.append({"op": "channel", "name": c, "scope": "global"})
        S += [{"op": "scope", "scope": "global"}, {"op": "scope", "scope": "local"}]
        if net:
            for t in m.syn_types:
                S.append({"op": "syntype", "name": t})
            S.append({"op": "syntype", "name": SYN_A, "scope": "global"})
            ge = [I(0), I(2), NI(1), LI(0, 1), AR(0, 2), RG(1, 3), SL(0, 2), SL(1, None), ALL, I(5)]
            ge += masks_for(rv, "edges", "global", 2)
            S += [{"op": "edge", "idx": x, "scope": "global"} for x in ge]
            if rv.scope == "global":
                S += [{"op": "edge", "idx": x} for x in (I(1), LI(0, 2), ALL)]
            if rv.scope == "local" and (rv.kind in m.syn_types or rv.kind == "network"):
                S += [{"op": "edge", "idx": x} for x in (I(0), I(1), LI(0, 1), ALL)]
            S += [{"op": "select", "edges": LI(0, 1)}, {"op": "select", "edges": LI(2, 0)}, {"op": "select", "edges": I(1)},
                  {"op": "select", "edges": ALL}, {"op": "select", "edges": SL(1, None)}, {"op": "select", "edges": AR(2)},
                  {"op": "select", "nodes": LI(*C["sel"]), "edges": LI(1)},
                  {"op": "select", "nodes": LI(*C["sel_unsorted"]), "edges": LI(2, 0), "sorted": True},
                  {"op": "select", "edges": LI(2, 0), "sorted": True},
                  # a view whose edges reach outside its nodes (select allows it)
                  {"op": "select", "nodes": AR(*C["sel_small"]), "edges": LI(0, 2)}]
            S += [{"op": "select", "edges": x} for x in masks_for(rv, "edges", eff, 2)]
        else:
            S.append({"op": "select", "edges": LI(0)})  # no edges: refusal
        return S

    if R == "MID":
        for op in LEVELS:
            if op not in lvls:
                continue
            S += [lv(op, x) for x in (I(0), I(1), LI(0, 2), SL(0, 2), ALL)]
            S.append(lv(op, RG(1, 3), "local"))
            S.append(lv(op, SL(1, None) if op == "cell" else SL(C["gl_int"], None), "global"))
            S.append(lv(op, AR(*gl_list(op)), "global"))
        top = lvls[0] if lvls else None
        if top:
            S += [lv(top, x) for x in masks_for(rv, top, eff, 1)]
        S += [loc([(2, 5)]), loc([(0, 1), (1, 1)], "list"), loc([(1, 2)])]
        S += [{"op": "select", "nodes": LI(*C["sel"])}, {"op": "select", "nodes": SL(1, None, 2)}]
        S += [{"op": "group", "name": "ga"}, {"op": "group", "name": "gb"}, {"op": "channel", "name": "Leak"}]
        S += [{"op": "scope", "scope": "global"}]
        if net:
            S += [{"op": "syntype", "name": SYN_A}, {"op": "syntype", "name": SYN_B}]
            S.append({"op": "edge", "idx": LI(0, 2), "scope": "global"})
            if rv.scope == "local" and rv.kind in m.syn_types:
                S.append({"op": "edge", "idx": I(1)})
            S.append({"op": "select", "edges": LI(1, 2)})
        return S

    if R == "SMALL":
        if "cell" in lvls:
            S += [lv("cell", I(1)), lv("cell", LI(0, 1), "global")]
        if "branch" in lvls:
            S += [lv("branch", I(0)), lv("branch", RG(1, 3), "local"), lv("branch", AR(*glb), "global")]
        if "comp" in lvls:
            S += [lv("comp", NI(1)), lv("comp", SL(0, 2), "local"), lv("comp", LI(*glc), "global"), lv("comp", ALL)]
        top = lvls[0] if lvls else None
        if top:
            S += [lv(top, x) for x in masks_for(rv, top, eff, 1)]
        S += [loc([(3, 5)]), {"op": "select", "nodes": LI(*C["sel"])}, {"op": "group", "name": "ga"},
              {"op": "channel", "name": "Leak"}]
        if net:
            S += [{"op": "syntype", "name": SYN_A}, {"op": "edge", "idx": LI(0, 1), "scope": "global"}]
        return S

    if R == "TINY":
        if "cell" in lvls:
            S.append(lv("cell", I(1)))
        if "branch" in lvls:
            S += [lv("branch", LI(0, 2)), lv("branch", SL(1, 4), "global")]
        if "comp" in lvls:
            S += [lv("comp", I(0)), lv("comp", RG(1, 3), "local")]
        S += [{"op": "select", "nodes": LI(*C["sel"])}, {"op": "group", "name": "ga"}, {"op": "channel", "name": "Leak"}]
        if net:
            S.append({"op": "syntype", "name": SYN_A})
        return S

    if R == "B":  # Part B: a few index forms, every op
        for op in LEVELS:
            if op not in lvls:
                continue
            S += [lv(op, I(0)), lv(op, LI(1, 2)), lv(op, I(1) if op == "cell" else I(C["gl_int"]), "global")]
        S += [loc([(3, 5)]), {"op": "select", "nodes": LI(*C["sel"])}, {"op": "select", "nodes": LI(*C["sel_unsorted"])},
              {"op": "group", "name": "ga"}, {"op": "channel", "name": "Leak"}]
        if net:
            S += [{"op": "syntype", "name": SYN_A}, {"op": "syntype", "name": SYN_B},
                  {"op": "edge", "idx": LI(0, 2), "scope": "global"}, {"op": "select", "edges": LI(1, 2)}]
        return S

    if R == "B2":  # second step of Part B chains in the quick tier
        for op in LEVELS:
            if op not in lvls:
                continue
            S += [lv(op, I(0)), lv(op, LI(1, 2))]
        S += [{"op": "group", "name": "ga"}, {"op": "channel", "name": "Leak"}]
        if net:
            S += [{"op": "syntype", "name": SYN_A}, {"op": "edge", "idx": LI(0, 2), "scope": "global"}]
        return S
    raise ValueError(R)


# families per tier: (model, root_scope, [richness per position])
def families(tier):
    if tier == "quick":
        return [
            ("comp", None, ["FULL"]),
            ("branch", None, ["FULL"]), ("branch", None, ["MID", "MID"]),
            ("cell", None, ["FULL"]), ("cell", None, ["MID", "MID"]), ("cell", None, ["TINY", "TINY", "TINY"]),
            ("net", None, ["FULL"]), ("net", None, ["MID", "MID"]), ("net", None, ["SMALL", "SMALL", "SMALL"]),
            ("net", "global", ["SMALL"]), ("net", "global", ["SMALL", "SMALL"]),
            ("cell", "global", ["SMALL"]), ("cell", "global", ["SMALL", "SMALL"]),
            ("nethet", None, ["FULL"]), ("nethet", None, ["SMALL", "SMALL"]),
        ]
    return [
        ("comp", None, ["FULL"]), ("comp", None, ["FULL", "FULL"]),
        ("branch", None, ["FULL"]), ("branch", None, ["FULL", "FULL"]), ("branch", None, ["SMALL", "SMALL", "SMALL"]),
        ("cell", None, ["FULL"]), ("cell", None, ["FULL", "FULL"]), ("cell", None, ["MID", "MID", "SMALL"]),
        ("cell", None, ["SMALL", "SMALL", "MID"]),
        ("cell", None, ["TINY", "TINY", "TINY", "TINY"]),
        ("net", None, ["FULL"]), ("net", None, ["FULL", "MID"]), ("net", None, ["MID", "FULL"]),
        ("net", None, ["MID", "MID", "SMALL"]), ("net", None, ["SMALL", "SMALL", "MID"]),
        ("net", None, ["TINY", "TINY", "TINY", "TINY"]),
        ("net", "global", ["MID"]), ("net", "global", ["MID", "MID"]), ("net", "global", ["SMALL", "SMALL", "SMALL"]),
        ("cell", "global", ["MID"]), ("cell", "global", ["MID", "MID"]),
        ("branch", "global", ["MID"]), ("branch", "global", ["MID", "MID"]),
        ("nethet", None, ["FULL"]), ("nethet", None, ["MID", "MID"]), ("nethet", "global", ["MID"]),
    ]


def families_b(tier):
    if tier == "quick":
        return [("comp", ["B"]), ("branch", ["B"]), ("cell", ["B"]), ("cell", ["B", "B2"]), ("net", ["B"]),
                ("net", ["B", "B2"]), ("nethet", ["B"])]
    return [("comp", ["B"]), ("branch", ["B"]), ("branch", ["B", "B"]), ("cell", ["B"]), ("cell", ["B", "B"]),
            ("net", ["B"]), ("net", ["B", "B"]), ("nethet", ["B"]), ("nethet", ["B", "B2"])]


_REFS = {}


def ref_of(name) -> RefModule:
    if name not in _REFS:
        _REFS[name] = RefModule(MODELS[name])
    return _REFS[name]


def prefixes(ref, root_scope, richness):
    """All deterministic, non-refused prefixes (list of steps, state) of length len(richness)."""
    out = [([], ref.root(root_scope or "local"))]
    for R in richness:
        nxt = []
        for chain, rv in out:
            for st in alphabet(rv, R):
                ex = rv.step(st)
                if ex.deterministic:
                    nxt.append((chain + [st], ex.outcomes[0]))
        out = nxt
    return out


CHUNK = 36


def explore(ctx):
    items = []
    counts = {}
    iter_seen = set()  # iteration is checked once per distinct reference state (first chain that reaches it)
    n_iter = 0
    for model, root_scope, rich in families(ctx.tier):
        ref = ref_of(model)
        d = len(rich)
        with_iter = d <= (2 if ctx.thorough else 1)
        fam = f"{model}:{root_scope or 'local'}:{'x'.join(rich)}"
        n = 0
        for chain, rv in prefixes(ref, root_scope, rich[:-1]):
            last = alphabet(rv, rich[-1])
            n += len(last)
            for k in range(0, len(last), CHUNK):
                part = last[k:k + CHUNK]
                iter_idx = []
                if with_iter:
                    for j, st in enumerate(part):
                        ex = rv.step(st)
                        if not ex.outcomes:
                            continue
                        if len(ex.outcomes) > 1:
                            iter_idx.append(j)  # boundary loc: state not unique, always checked
                            continue
                        key = (model, root_scope, ex.outcomes[0].key())
                        if key not in iter_seen:
                            iter_seen.add(key)
                            iter_idx.append(j)
                n_iter += len(iter_idx)
                items.append({"part": "A", "model": model, "root_scope": root_scope, "prefix": chain,
                              "last": part, "fam": fam, "iter_idx": iter_idx})
        counts[fam] = n
    ctx.note("iteration_checked_views", n_iter + len(MODELS))
    for model in MODELS:
        items.append({"part": "A", "model": model, "root_scope": None, "prefix": [], "last": [], "fam": f"{model}:root",
                      "iter": True, "root_eval": True})
    nb = 0
    for model, rich in families_b(ctx.tier):
        ref = ref_of(model)
        muts = mutators_for(ref)
        chains = [c for c, _ in prefixes(ref, None, rich)]
        if len(rich) == 1:
            chains = [[]] + chains
        for c in chains:
            items.append({"part": "B", "model": model, "chain": c, "mutators": muts})
            nb += len(muts)
    ctx.note("chains_per_family", counts)
    ctx.note("part_a_chains", sum(counts.values()))
    ctx.note("part_b_mutator_applications_planned", nb)
    ctx.note("bound", "quick: net depth<=3 (FULL | MIDxMID | SMALL^3), cell depth<=3, branch depth<=2, comp depth 1, "
                      "set_scope('global') roots depth<=2; thorough: net FULLxMID + MIDxFULL + MIDxMIDxSMALL + SMALLxSMALLxMID + TINY^4, "
                      "cell FULL^2 + MIDxMIDxSMALL + SMALLxSMALLxMID + TINY^4, branch FULL^2 + SMALL^3, comp FULL^2, set_scope('global') roots MID^2 / SMALL^3")
    # heavier items first is not needed: the runner shuffles; keep items small instead
    res = ctx.map("work", items)
    a_chains = sum(r.get("chains", 0) for _, r in res if "error" not in r)
    ctx.note("part_a_chains_executed", a_chains)
    ctx.note("part_b_mutator_applications", sum(r.get("mut_apps", 0) for _, r in res if "error" not in r))
    ctx.note("part_b_views", sum(r.get("b_views", 0) for _, r in res if "error" not in r))
    ctx.states = len(ctx.digests)


# ============================================================================= Part A worker
def _new_out():
    return {"evals": 0, "digests": [], "cover": [], "refusals": [], "violations": [], "transitions": 0, "chains": 0,
            "mut_apps": 0, "b_views": 0}


def _sig_a(rule, st, model):
    sig = {"part": "A", "rule": rule, "op": st["op"] if st else "root"}
    if st and st["op"] in LEVELS + ("edge",):
        sig["form"] = st["idx"]["f"]
    if st and st["op"] == "select":
        both = "nodes" in st and "edges" in st
        if st.get("sorted"):
            sig["what"] = "nodes+edges+sorted" if both else "one_table+sorted"
        else:
            sig["what"] = "+".join(k for k in ("nodes", "edges") if k in st)
    return sig


def _eff_scopes(root_scope, chain):
    s = root_scope or "local"
    out = []
    for st in chain:
        s = st.get("scope") or s
        out.append(s)
    return out


def _covers(M, root_scope, chain, parent_rv, rv, st):
    cov = []
    m = M.ref
    effs = _eff_scopes(root_scope, chain)
    if any(st2.get("scope") and st2["scope"] != (effs[k - 1] if k else (root_scope or "local"))
           for k, st2 in enumerate(chain) if k >= 1):
        cov.append("scope_switch_mid_chain")
    if root_scope == "global":
        cov.append("module_set_scope_global")
    # partially viewed branch that lacks its last compartment
    byb = {}
    for r in rv.rows():
        byb.setdefault(r[1], set()).add(r[2])
    for b, comps in byb.items():
        last = m.first_node_of_branch[b] + m.ncomp_of_branch[b] - 1
        if last not in comps:
            cov.append("view_excludes_last_comp")
            break
    op = st["op"]
    if op in LEVELS and effs[-1] == "local" and op in m.levels:
        other = parent_rv.step(dict(st, scope="global"))
        o_nodes = other.outcomes[0].nodes if other.outcomes else ()
        if o_nodes != rv.nodes:
            cov.append("local_rank_differs_from_global")
    if op in ("edge", "syntype") or (op == "select" and "edges" in st):
        if rv.edges:
            cov.append("edge_selection")
    elif rv.edges and len(rv.edges) < len(parent_rv.edges):
        cov.append("edges_need_both_ends")
    if op == "group":
        cov.append("group_view")
    if op == "channel":
        cov.append("channel_view")
    if op == "syntype":
        cov.append("synapse_type_view")
    if op == "loc":
        if rvw.loc_is_boundary(m, parent_rv, st["at"]):
            cov.append("loc_boundary")
        elif any(0 < a < b for a, b in st["at"]):
            cov.append("loc_interior")
        else:
            cov.append("loc_ends")
    for key in ("idx", "nodes", "edges"):
        if key in st and st[key]["f"] == "mask":
            cov.append("bool_mask")
    if op == "select" and "nodes" in st and list(rv.nodes) != sorted(rv.nodes):
        cov.append("unsorted_select")
    return cov


def _step_on_impl(M, root_scope, chain, rv, v, st, out, evaluate, path):
    """Execute one step on implementation and reference. Returns (rv2, v2) if the chain can be extended."""
    ex = rv.step(st)
    full = chain + [st]
    wit = {"part": "A", "model": M.name, "root_scope": root_scope, "chain": full}
    try:
        v2, n = apply_impl(v, st)
        err = None
    except Exception as e:  # jaxley's own exception: refusal or violation, classified below
        v2, n, err = None, 1 + (1 if st.get("scope") else 0), e
    out["transitions"] += n
    if evaluate:
        out["evals"] += 1
        out["chains"] += 1
    if err is not None:
        if ex.must_refuse or ex.may_refuse:
            if evaluate:
                out["refusals"].append(f"{st['op']}:{ex.reason}:{type(err).__name__}")
                if ex.must_refuse and "Nothing in view" in str(err):
                    out["cover"].append("empty_refused")
            return None
        out["violations"].append({
            "sig": _sig_a("nonempty_refused", st, M.name), "witness": wit,
            "msg": f"chain denotes nodes {list(ex.outcomes[0].nodes)} but raised {type(err).__name__}: {str(err)[:120]}"})
        return None
    if ex.must_refuse:
        got = [int(i) for i in v2.nodes.index.tolist()] if hasattr(v2, "nodes") else repr(v2)
        out["violations"].append({
            "sig": _sig_a("empty_not_refused", st, M.name), "witness": wit,
            "msg": f"chain denotes nothing ({ex.reason}) but returned a view with nodes {got}"})
        return None
    matched, first_bad = None, None
    for o in ex.outcomes:
        bad = check_view(v2, o)
        if bad is None:
            matched = o
            break
        first_bad = first_bad or bad
    if matched is None:
        out["violations"].append({
            "sig": _sig_a(first_bad[0], st, M.name), "witness": wit,
            "msg": f"{first_bad[0]}: observed {first_bad[1]} expected {first_bad[2]}"})
        return None
    if evaluate:
        out["digests"].append(digest(matched.canon()))
        out["cover"] += _covers(M, root_scope, full, rv, matched, st)
        if len(out.get("sample", {})) == 0:
            out["sample"] = {"chain": full, "nodes": list(matched.nodes), "edges": list(matched.edges), "model": M.name}
    return matched, v2


def _lazy_checks(M, root_scope, path, out):
    """path: list of (rv, v, st) from the root (st None) to the current node. For every suffix of consecutive-level,
    inherit-scope steps below an ancestor at a hierarchy level: ancestor[i, j, ...] must equal the current view."""
    rv_cur, v_cur, _ = path[-1]
    steps = [p[2] for p in path[1:]]
    for L in range(1, len(steps) + 1):
        suffix = steps[-L:]
        anc_rv, anc_v, _ = path[-L - 1]
        children = rvw.CHILDREN_OF_KIND.get(anc_rv.kind)
        if children is None or len(children) < L:
            break
        if not all(s["op"] == children[k] and not s.get("scope") for k, s in enumerate(suffix)):
            break
        index = tuple(mk_idx(s["idx"]) for s in suffix)
        chain = [p[2] for p in path[1:]]
        wit = {"part": "A", "model": M.name, "root_scope": root_scope, "chain": chain, "lazy": L}
        try:
            lz = anc_v[index if L > 1 else index[0]]
            out["transitions"] += L
        except Exception as e:
            out["violations"].append({"sig": {"part": "A", "rule": "lazy_getitem_refused", "len": L},
                                      "witness": wit, "msg": f"{type(e).__name__}: {str(e)[:120]}"})
            continue
        bad = check_view(lz, rv_cur)
        if bad is not None:
            out["violations"].append({"sig": {"part": "A", "rule": "lazy_getitem:" + bad[0], "len": L},
                                      "witness": wit, "msg": f"[] gives {bad[1]}, method form {bad[2]}"})
        else:
            out["cover"].append("lazy_getitem")
            if L >= 2:
                out["cover"].append("lazy_getitem_len>=2")
            if rv_cur.scope == "global":
                out["cover"].append("lazy_getitem_global_scope")
        if L == 1 and len(index) == 1:
            # the one-tuple form must agree as well
            try:
                lz = anc_v[(index[0],)]
                out["transitions"] += 1
                bad = check_view(lz, rv_cur)
                if bad is not None:
                    out["violations"].append({"sig": {"part": "A", "rule": "lazy_getitem:" + bad[0], "len": 1},
                                              "witness": wit, "msg": f"[(i,)] gives {bad[1]}, method form {bad[2]}"})
            except Exception as e:
                out["violations"].append({"sig": {"part": "A", "rule": "lazy_getitem_refused", "len": 1},
                                          "witness": wit, "msg": f"{type(e).__name__}: {str(e)[:120]}"})


_ITER_DONE = set()


def _iter_checks(M, root_scope, chain, rv, v, out, memo=False):
    key = (M.name, root_scope, rv.key())
    if memo and key in _ITER_DONE:
        return
    if memo:
        _ITER_DONE.add(key)
    wit = {"part": "A", "model": M.name, "root_scope": root_scope, "chain": chain, "iter": True}

    def compare(name, level, gen):
        want = rv.iter_level(level)
        try:
            got = list(gen())
        except Exception as e:
            out["transitions"] += 1
            out["violations"].append({"sig": {"part": "A", "rule": "iteration_refused", "how": name},
                                      "witness": dict(wit, how=name), "msg": f"{type(e).__name__}: {str(e)[:120]}"})
            return
        out["transitions"] += len(got)
        if len(got) != len(want):
            out["violations"].append({"sig": {"part": "A", "rule": "iteration_count", "how": name},
                                      "witness": dict(wit, how=name), "msg": f"{len(got)} items, expected {len(want)}"})
            return
        for (val, w), g in zip(want, got):
            bad = check_view(g, w)
            if bad is not None:
                out["violations"].append({"sig": {"part": "A", "rule": "iteration:" + bad[0], "how": name},
                                          "witness": dict(wit, how=name),
                                          "msg": f"item for index {val}: observed {bad[1]} expected {bad[2]}"})
                return
        out["cover"].append("iteration")
        out["cover"].append("iteration:" + name)

    for level in M.ref.levels:
        compare(PLURAL[level], level, lambda level=level: getattr(v, PLURAL[level]))
    children = rvw.CHILDREN_OF_KIND.get(rv.kind)
    if children:
        compare("__iter__", children[0], lambda: iter(v))
    else:
        # not at a hierarchy level (or a single compartment): `for x in view` / `view[0]` are not promised
        for how, fn in (("__iter__", lambda: list(iter(v))), ("__getitem__", lambda: v[0])):
            try:
                fn()
                out["transitions"] += 1
                out["cover"].append(f"nonlevel_{how}_returned:{_kind_class(M, rv.kind)}")
            except Exception as e:
                out["transitions"] += 1
                out["refusals"].append(f"{how}_on_{_kind_class(M, rv.kind)}_view:{type(e).__name__}")


def _kind_class(M, kind):
    if kind in M.ref.groups:
        return "group"
    if kind in M.ref.channels:
        return "channel"
    if kind in M.ref.syn_types:
        return "syntype"
    return {"view": "scope", "filter": "select"}.get(kind, kind)


def _run_a(M, mod, item, out, memo=False):
    root_scope = item.get("root_scope")
    if root_scope:
        mod.set_scope(root_scope)
        out["transitions"] += 1
    try:
        rv, v = M.ref.root(root_scope or "local"), mod
        path = [(rv, v, None)]
        chain = []
        if item.get("root_eval"):
            bad = check_view(v, rv)
            out["evals"] += 1
            if bad is not None:
                out["violations"].append({"sig": _sig_a(bad[0], None, M.name),
                                          "witness": {"part": "A", "model": M.name, "root_scope": root_scope, "chain": []},
                                          "msg": f"{bad[0]}: observed {bad[1]} expected {bad[2]}"})
            else:
                out["digests"].append(digest(rv.canon()))
                _iter_checks(M, root_scope, [], rv, v, out, memo)
        for st in item["prefix"]:
            r = _step_on_impl(M, root_scope, chain, rv, v, st, out, False, path)
            if r is None:
                # the prefix itself fails: it is reported by the family that owns it; report here as well if that
                # family does not exist (cannot happen: every prefix family is enumerated)
                return
            rv, v = r
            chain = chain + [st]
            path.append((rv, v, st))
        for k_last, st in enumerate(item["last"]):
            r = _step_on_impl(M, root_scope, chain, rv, v, st, out, True, path)
            if r is None:
                continue
            rv2, v2 = r
            p2 = path + [(rv2, v2, st)]
            _lazy_checks(M, root_scope, p2, out)
            if item.get("iter") or k_last in item.get("iter_idx", ()):
                _iter_checks(M, root_scope, chain + [st], rv2, v2, out, memo)
    finally:
        if root_scope:
            mod.set_scope("local")


def work_a(item):
    M = get_model(item["model"])
    out = _new_out()
    _run_a(M, M.module, item, out)
    # selection must not modify the module
    d = diff(M.snap, snapshot(M.module))
    if not diff_is_empty(d):
        out["violations"].append({"sig": {"part": "A", "rule": "selection_mutates_module"},
                                  "witness": {"part": "item", "item": item},
                                  "msg": f"base module changed by selections: { {k: v for k, v in d.items() if v} }"[:400]})
        _CACHE.pop(M.name, None)
    # confirm every violation in isolation (fresh copy, chain alone)
    confirmed = []
    for viol in out["violations"]:
        w = viol["witness"]
        if w.get("part") != "A":
            confirmed.append(viol)
            continue
        again = replay(w)
        if any(a["sig"] == viol["sig"] for a in again):
            confirmed.append(viol)
        else:
            confirmed.append({"sig": dict(viol["sig"], rule="order_dependent:" + viol["sig"]["rule"]),
                              "witness": {"part": "item", "item": item},
                              "msg": "not reproducible in isolation: " + viol["msg"]})
    out["violations"] = confirmed
    return out


# ============================================================================= Part B: confinement of mutators
HH_COLS = {"HH", "HH_gNa", "HH_gK", "HH_gLeak", "HH_eNa", "HH_eK", "HH_eLeak", "HH_m", "HH_h", "HH_n"}
LEAK_COLS = {"Leak", "Leak_gLeak", "Leak_eLeak"}
STIM = [0.25, 0.5, 0.75]
CLAMP = [-50.0, -51.0, -52.0]
MOVE = [1.5, -2.5, 0.25]


def mutators_for(ref):
    muts = ["set", "set_channel_param", "insert", "insert_existing", "record", "stimulate", "clamp",
            "add_to_group", "add_to_group_existing", "move"]
    if ref.kind == "net":
        muts += ["set_edge", "record_edge", "clamp_edge"]
    else:
        muts += ["set_edge"]  # refused: no such column
    return muts


def apply_mutator(v, name):
    import jax.numpy as jnp
    from jaxley.channels import HH, Leak

    if name == "set":
        v.set("radius", 7.25)
    elif name == "set_channel_param":
        v.set("Leak_gLeak", 0.123)
    elif name == "set_edge":
        v.set(SYN_A + "_gS", 0.321)
    elif name == "insert":
        v.insert(HH())
    elif name == "insert_existing":
        v.insert(Leak())
    elif name == "record":
        v.record("v", verbose=False)
    elif name == "record_edge":
        v.record(SYN_A + "_s", verbose=False)
    elif name == "stimulate":
        v.stimulate(jnp.asarray(STIM), verbose=False)
    elif name == "clamp":
        v.clamp("v", jnp.asarray(CLAMP), verbose=False)
    elif name == "clamp_edge":
        v.clamp(SYN_A + "_s", jnp.asarray([0.11, 0.12, 0.13]), verbose=False)
    elif name == "add_to_group":
        v.add_to_group("gnew")
    elif name == "add_to_group_existing":
        v.add_to_group("ga")
    elif name == "move":
        v.move(*MOVE)
    else:
        raise ValueError(name)


def _ext_problem(d, key, inds_lo, inds_hi, data_row):
    """externals[key]: old entries kept, added indices a multiset between lo and hi, data rows = data_row."""
    e = d["ext"].get(key)
    if e is None:
        return None if not inds_lo else f"externals[{key}] unchanged, expected new entries {sorted(inds_lo)}"
    if e.get("removed"):
        return f"externals[{key}] removed"
    if not e["prefix_ok"]:
        return f"externals[{key}]: previously existing entries changed"
    add = sorted(e["added_inds"])
    if not e["consistent"] or len(e["added_data"]) != len(add):
        return f"externals[{key}]: {len(e['added_data'])} data rows added but {len(add)} indices {add}"
    lo, hi = sorted(inds_lo), sorted(inds_hi)
    if not (_multi_subset(lo, add) and _multi_subset(add, hi)):
        return f"externals[{key}]: added indices {add}, expected between {lo} and {hi}"
    for row in e["added_data"]:
        if [round(x, 9) for x in row] != [round(x, 9) for x in data_row]:
            return f"externals[{key}]: added data {row} != {data_row}"
    return None


def _multi_subset(a, b):
    b = list(b)
    for x in a:
        if x in b:
            b.remove(x)
        else:
            return False
    return True


def judge_mutator(ref, rv, name, before, d, lo_exclude=frozenset()):
    """Returns None if the diff is confined as the property demands, else (what, message)."""
    N, E = set(rv.nodes), set(rv.edges)
    leak = ref.channels.get("Leak", set())
    Ea = {e for e in E if ref.edges[e][2] == SYN_A}
    ignore = set()
    prob = None

    def rows_between(kind, lo, hi, cols_allowed):
        rows, cols = d[kind + "_rows"], d[kind + "_cols"]
        if d[kind + "_struct"]:
            return f"{kind} table restructured: {d[kind + '_struct']}"
        if not (set(lo) <= rows <= set(hi)):
            return f"changed {kind} rows {sorted(rows)}, expected between {sorted(lo)} and {sorted(hi)}"
        if not cols <= set(cols_allowed):
            return f"changed {kind} columns {sorted(cols)} not within {sorted(cols_allowed)}"
        return None

    if name == "set":
        prob = rows_between("node", N, N, {"radius"})
        ignore = {"node_rows", "node_cols"}
    elif name == "set_channel_param":
        prob = rows_between("node", N & leak, N, {"Leak_gLeak"})
        ignore = {"node_rows", "node_cols"}
    elif name == "set_edge":
        prob = rows_between("edge", Ea, E, {SYN_A + "_gS"})
        ignore = {"edge_rows", "edge_cols"}
    elif name == "insert":
        prob = rows_between("node", N - set(lo_exclude), N, HH_COLS)  # rows that already carry HH with default values need not change
        ignore = {"node_rows", "node_cols", "channels"}
    elif name == "insert_existing":
        prob = rows_between("node", N, N, LEAK_COLS)
        ignore = {"node_rows", "node_cols"}
    elif name == "record":
        want = {(n, "v") for n in N} - set(before["recs"])
        if d["recs_added"] != want or d["recs_removed"] or d["recs_dupes"]:
            prob = f"recordings added {sorted(d['recs_added'])} removed {sorted(d['recs_removed'])}, expected added {sorted(want)}"
        ignore = {"recs_added"}
    elif name == "record_edge":
        key = SYN_A + "_s"
        lo = {(e, key) for e in Ea} - set(before["recs"])
        hi = {(e, key) for e in E} - set(before["recs"])
        if not (lo <= d["recs_added"] <= hi) or d["recs_removed"] or d["recs_dupes"]:
            prob = f"recordings added {sorted(d['recs_added'])}, expected between {sorted(lo)} and {sorted(hi)}"
        ignore = {"recs_added"}
    elif name == "stimulate":
        prob = _ext_problem(d, "i", sorted(N), sorted(N), STIM)
        ignore = {"ext"}
        if prob is None and set(d["ext"]) - {"i"}:
            prob = f"other externals changed: {sorted(set(d['ext']) - {'i'})}"
    elif name == "clamp":
        prob = _ext_problem(d, "v", sorted(N), sorted(N), CLAMP)
        ignore = {"ext"}
        if prob is None and set(d["ext"]) - {"v"}:
            prob = f"other externals changed: {sorted(set(d['ext']) - {'v'})}"
    elif name == "clamp_edge":
        key = SYN_A + "_s"
        prob = _ext_problem(d, key, sorted(Ea), sorted(E), [0.11, 0.12, 0.13])
        ignore = {"ext"}
        if prob is None and set(d["ext"]) - {key}:
            prob = f"other externals changed: {sorted(set(d['ext']) - {key})}"
    elif name in ("add_to_group", "add_to_group_existing"):
        g = "gnew" if name == "add_to_group" else "ga"
        want = sorted(set(before["groups"].get(g, [])) | N)
        others = {k: v for k, v in d["groups"].items() if k != g}
        got = d["groups"].get(g, before["groups"].get(g))
        if others:
            prob = f"other groups changed: {others}"
        elif got is None or sorted(got) != want or len(got) != len(set(got)):
            prob = f"group {g} = {got}, expected {want}"
        ignore = {"groups"}
    elif name == "move":
        b_view = {r[1] for r in rv.rows()}
        b_cells = ref.branches_of_cells({r[0] for r in rv.rows()})
        changed = set(d["xyzr"])
        if "struct" in changed:
            prob = "xyzr restructured"
        elif not (b_view <= changed <= b_cells):
            prob = f"moved branches {sorted(changed)}, expected between {sorted(b_view)} and {sorted(b_cells)}"
        else:
            for b, (xa, xb) in d["xyzr"].items():
                for pa, pb in zip(xa, xb):
                    delta = [None if (p is None or q is None) else round(q - p, 9) for p, q in zip(pa[:3], pb[:3])]
                    if delta != MOVE or pa[3] != pb[3] or len(xa) != len(xb):
                        prob = f"branch {b} moved by {delta}, expected {MOVE}"
        ignore = {"xyzr"}
    else:
        raise ValueError(name)
    if prob is not None:
        return ("rows", prob)
    rest = {k: v for k, v in d.items() if k not in ignore and v}
    if rest:
        return ("elsewhere", f"unrelated state changed: {_short(rest)}")
    return None


def _short(x):
    s = repr(x)
    return s if len(s) < 300 else s[:300] + "..."


def _mut_class(name):
    return {"set_channel_param": "set", "insert_existing": "insert", "record_edge": "record", "clamp_edge": "clamp",
            "add_to_group_existing": "add_to_group"}.get(name, name)


# "held" views: the view object is created first, THEN the module is edited through another view, THEN the mutator is called through
# the (by now possibly stale) held view.  Expected effect: exactly that of a fresh view at that moment.
HELD_PAIRS = [("group_created_elsewhere", "add_to_group"), ("group_extended_elsewhere", "add_to_group_existing"),
              ("recorded_elsewhere", "record"), ("stimulated_elsewhere", "stimulate"), ("clamped_elsewhere", "clamp"),
              ("inserted_elsewhere", "insert"), ("set_elsewhere", "set"), ("group_created_elsewhere", "set"),
              ("inserted_elsewhere", "add_to_group")]


def apply_disturbance(mod, n, name):
    import jax.numpy as jnp
    from jaxley.channels import HH

    first, last = mod.select(nodes=[0]), mod.select(nodes=[n - 1])
    if name == "group_created_elsewhere":
        first.add_to_group("gnew")
    elif name == "group_extended_elsewhere":
        last.add_to_group("ga")
    elif name == "recorded_elsewhere":
        first.record("v", verbose=False)
    elif name == "stimulated_elsewhere":
        last.stimulate(jnp.asarray([0.7, 0.8, 0.9]), verbose=False)
    elif name == "clamped_elsewhere":
        first.clamp("v", jnp.asarray([-50.0, -51.0, -52.0]), verbose=False)
    elif name == "inserted_elsewhere":
        first.insert(HH())
    elif name == "set_elsewhere":
        first.set("radius", 3.3)
    else:
        raise ValueError(name)


def run_b_one(M, chain, name, out, base_snap=None, disturb=None):
    """One mutator through one view on a fresh deepcopy. Appends to out; returns nothing."""
    mod = copy.deepcopy(M.module)
    before = base_snap or M.snap
    rv, v = M.ref.root("local"), mod
    wit = {"part": "B", "model": M.name, "chain": chain, "mutator": name}
    if disturb:
        wit["held_after"] = disturb
    for k, st in enumerate(chain):
        ex = rv.step(st)
        try:
            v, n = apply_impl(v, st)
        except Exception as e:
            out["violations"].append({"sig": _sig_a("nonempty_refused", st, M.name), "witness": wit,
                                      "msg": f"{type(e).__name__}: {str(e)[:100]}"})
            return
        out["transitions"] += n
        rv = ex.outcomes[0]
    bad = check_view(v, rv)
    if bad is not None:
        out["violations"].append({"sig": _sig_a(bad[0], chain[-1] if chain else None, M.name), "witness": wit,
                                  "msg": f"{bad[0]}: observed {bad[1]} expected {bad[2]}"})
        return
    if disturb:
        try:
            apply_disturbance(mod, M.ref.n, disturb)
        except Exception as e:
            out["refusals"].append(f"disturbance:{disturb}:{type(e).__name__}")
            return
        before = snapshot(mod)
        out["transitions"] += 1
    out["evals"] += 1
    out["mut_apps"] += 1
    out["transitions"] += 1
    try:
        apply_mutator(v, name)
    except Exception as e:
        after = snapshot(mod)
        d = diff(before, after)
        if not diff_is_empty(d):
            out["violations"].append({"sig": {"part": "B", "rule": "refused_but_modified", "mutator": name},
                                      "witness": wit, "msg": f"{type(e).__name__} raised after modifying: {_short({k: x for k, x in d.items() if x})}"})
        else:
            out["refusals"].append(f"mutator:{name}:{M.ref.kind}:{type(e).__name__}")
        return
    d = diff(before, snapshot(mod))
    verdict = judge_mutator(M.ref, rv, name, before, d, lo_exclude={0} if disturb == "inserted_elsewhere" else frozenset())
    if verdict is not None:
        sig = {"part": "B", "rule": "confinement:" + verdict[0], "mutator": name}
        if disturb:
            sig["held_view"] = True
        out["violations"].append({
            "sig": sig,
            "witness": wit, "msg": (f"(view held while {disturb}) " if disturb else "") + f"view nodes {list(rv.nodes)} edges {list(rv.edges)}: {verdict[1]}"[:500]})
    elif disturb:
        out["cover"].append("mutator_through_held_view")
        if name.startswith("add_to_group"):
            out["cover"].append("add_to_group_through_held_view_after_group_changed")
    else:
        out["cover"].append("mutator:" + _mut_class(name))
        out["cover"].append("mutator_variant:" + name)
        if len(rv.nodes) < M.ref.n:
            out["cover"].append("mutator_on_strict_subview:" + _mut_class(name))


def work_b(item):
    M = get_model(item["model"])
    out = _new_out()
    rv = M.ref.root("local")
    for st in item["chain"]:
        rv = rv.step(st).outcomes[0]
    out["digests"].append(digest(rv.canon()))
    out["b_views"] = 1
    for name in item["mutators"]:
        run_b_one(M, item["chain"], name, out)
    if item["chain"]:
        for dist, name in HELD_PAIRS:
            if name in item["mutators"]:
                run_b_one(M, item["chain"], name, out, disturb=dist)
    d = diff(M.snap, snapshot(M.module))
    if not diff_is_empty(d):
        out["violations"].append({"sig": {"part": "B", "rule": "deepcopy_not_isolated"},
                                  "witness": {"part": "item", "item": item}, "msg": _short({k: x for k, x in d.items() if x})})
        _CACHE.pop(M.name, None)
    out["sample"] = {"part": "B", "model": M.name, "chain": item["chain"], "view_nodes": list(rv.nodes),
                     "view_edges": list(rv.edges), "mutators": item["mutators"]}
    return out


def _build_violation(M):
    what, msg = M.build_problem
    return {"sig": {"part": "build", "rule": "build_mismatch", "what": what},
            "witness": {"part": "build", "model": M.name},
            "msg": f"module '{M.name}' assembled through views differs from its description: {msg}"[:500]}


def work(item):
    M = get_model(item["model"])
    if M.build_problem is not None:
        out = _new_out()
        out["evals"] = 1
        out["violations"].append(_build_violation(M))
        return out
    if item["part"] == "A":
        return work_a(item)
    return work_b(item)


# ============================================================================= replay
def replay(w):
    if w.get("part") == "item":
        item = w["item"]
        _CACHE.pop(item["model"], None)
        res = work(item)
        return res["violations"]
    if w.get("part") == "build":
        _CACHE.pop(w["model"], None)
    M = get_model(w["model"])
    if M.build_problem is not None:
        return [_build_violation(M)]
    if w.get("part") == "build":
        return []
    out = _new_out()
    if w["part"] == "B":
        run_b_one(M, w["chain"], w["mutator"], out, disturb=w.get("held_after"))
        return out["violations"]
    mod = copy.deepcopy(M.module)
    chain = w["chain"]
    item = {"part": "A", "model": w["model"], "root_scope": w.get("root_scope"), "prefix": chain[:-1],
            "last": chain[-1:], "iter": bool(w.get("iter")), "root_eval": not chain}
    _run_a(M, mod, item, out, memo=False)
    return out["violations"]
