"""Harness self-test module (not a property check): work items that kill their worker process once."""
import os

ID = "C00SELFTEST"
LEVEL = "exploration"
RULE = "self-test"
REQUIRED_COVER = []
ASSUMPTIONS = []


def work(item):
    marker = item.get("die_once")
    if marker and not os.path.exists(marker):
        open(marker, "w").close()
        os._exit(17)
    if item.get("die_always"):
        os._exit(17)
    return {"evals": 1, "digests": [str(item["i"])], "violations": [], "cover": [], "refusals": []}
