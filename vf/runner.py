"""CLI + worker pool + evidence + known-findings + replay for all checks.

    ./check C01 [--tier quick|thorough] [--replay file] [--jobs N]

Exit codes: 0 property held on everything explored (known findings are printed),
            1 at least one violation not listed in known_findings.json (VIOLATION lines printed),
            2 harness error (coverage predicate unmet, worker crashed, replay not reproducible).
"""
from __future__ import annotations

import argparse
import hashlib
import importlib
import json
import os
import random
import sys
import time
import traceback

from vf import env

EVIDENCE_DIR = os.environ.get("VERIF_EVIDENCE_DIR") or os.path.join(env.VERIF, "evidence")
REPLAY_DIR = os.path.join(env.VERIF, "replays")
KNOWN_FILE = os.path.join(env.VERIF, "known_findings.json")


def jdump(obj) -> str:
    return json.dumps(obj, sort_keys=True, default=_jdefault)


def _jdefault(o):
    try:
        import numpy as np

        if isinstance(o, np.generic):
            return o.item()
        if isinstance(o, np.ndarray):
            return o.tolist()
    except Exception:
        pass
    if isinstance(o, (set, frozenset)):
        return sorted(o)
    if isinstance(o, tuple):
        return list(o)
    return repr(o)


def digest(obj) -> str:
    return hashlib.sha256(jdump(obj).encode()).hexdigest()[:16]


# ----------------------------------------------------------------------------- worker side
_MOD = None


def _worker_init(check_id: str):
    global _MOD
    env.setup()
    _MOD = importlib.import_module(f"vf.checks.{check_id.lower()}")
    if hasattr(_MOD, "worker_init"):
        _MOD.worker_init()


def _worker_call(task):
    fn_name, item = task
    t0 = time.time()
    try:
        res = getattr(_MOD, fn_name)(item)
        if res is None:
            res = {}
    except BaseException as e:  # harness error (checks classify jaxley's exceptions themselves)
        res = {"error": f"{type(e).__name__}: {e}\n{traceback.format_exc()[-3000:]}"}
    res["_t"] = time.time() - t0
    try:
        env.maybe_clear_caches()
    except Exception:
        pass
    return item, res


# ----------------------------------------------------------------------------- driver side
class Ctx:
    def __init__(self, mod, tier: str, seed: int, jobs: int):
        self.mod = mod
        self.tier = tier
        self.thorough = tier == "thorough"
        self.seed = seed
        self.jobs = jobs
        self.rng = random.Random(seed)
        self.t0 = time.time()
        self.evaluations = 0
        self.digests = set()
        self.cover_hits = {}
        self.refusals = {}
        self.violations = []  # list of dict(sig, witness, msg)
        self.samples = []
        self.cover_samples = {}
        self.states = 0
        self.transitions = 0
        self.notes = {}
        self.errors = []
        self.exhaustive = True
        self._pool = None
        self.max_samples = 6
        self.deadline = None
        budget = os.environ.get("VERIF_BUDGET_S")
        if budget:
            self.deadline = self.t0 + float(budget)

    # -- pool
    def pool(self):
        if self._pool is None and self.jobs > 1:
            import multiprocessing as mp

            from concurrent.futures import ProcessPoolExecutor

            # an executor (not multiprocessing.Pool): a worker that dies (e.g. the process runs out of memory mappings inside
            # one long item) breaks the executor loudly instead of leaving map() waiting for ever for the lost item
            self._pool = ProcessPoolExecutor(self.jobs, mp_context=mp.get_context("spawn"), initializer=_worker_init,
                                             initargs=(self.mod.ID,))
        return self._pool

    def close(self):
        if self._pool is not None:
            procs = list(getattr(self._pool, "_processes", {}).values())
            self._pool.shutdown(wait=False, cancel_futures=True)
            for pr in procs:
                try:
                    pr.terminate()
                except Exception:
                    pass
            self._pool = None

    def map(self, fn_name: str, items, absorb: bool = True, chunksize: int = 1):
        """Run mod.<fn_name>(item) for every item (all of them — order only depends on the seed).
        Returns list of (item, result) in the original item order."""
        items = list(items)
        order = list(range(len(items)))
        self.rng.shuffle(order)
        tasks = [(fn_name, items[i]) for i in order]
        out = [None] * len(items)
        if self.jobs <= 1 or len(items) <= 1:
            _worker_init_local(self.mod)
            it = (_worker_call(t) for t in tasks)
        else:
            it = self._robust(tasks)
        for k, (item, res) in zip(order, it):
            out[k] = (item, res)
            if absorb:
                self.absorb(item, res)
        return out

    MAX_POOL_RESTARTS = 4

    def _robust(self, tasks):
        """Every task's result, in task order.  If a worker process dies the executor is rebuilt and the unfinished tasks
        are submitted again (at most MAX_POOL_RESTARTS times); what is still unfinished then is reported as a harness error."""
        from concurrent.futures import wait, FIRST_EXCEPTION
        from concurrent.futures.process import BrokenProcessPool

        results = [None] * len(tasks)
        pending = list(range(len(tasks)))
        restarts = 0
        while pending:
            ex = self.pool()
            futs = {j: ex.submit(_worker_call, tasks[j]) for j in pending}
            wait(list(futs.values()), return_when=FIRST_EXCEPTION)
            broken = False
            for j, f in futs.items():
                if f.done() and not f.cancelled():
                    try:
                        results[j] = f.result()
                    except BrokenProcessPool:
                        broken = True
                    except BaseException as e:  # pickling problems etc.
                        results[j] = (tasks[j][1], {"error": f"{type(e).__name__}: {e}"})
                elif not broken:
                    try:
                        results[j] = f.result()
                    except BrokenProcessPool:
                        broken = True
                    except BaseException as e:
                        results[j] = (tasks[j][1], {"error": f"{type(e).__name__}: {e}"})
            pending = [j for j in pending if results[j] is None]
            if pending:
                self.close()
                restarts += 1
                self.notes["worker_pool_restarts"] = restarts
                if restarts > self.MAX_POOL_RESTARTS:
                    for j in pending:
                        results[j] = (tasks[j][1], {"error": "worker process died repeatedly while this item was in flight or queued"})
                    pending = []
        return iter(results)

    def absorb(self, item, res: dict):
        if "error" in res:
            self.errors.append({"item": item, "error": res["error"]})
            return
        self.evaluations += res.get("evals", 1)
        for d in res.get("digests", ()):
            self.digests.add(d)
        for p in res.get("cover", ()):
            self.cover(p, sample=item)
        for r in res.get("refusals", ()):
            self.refusals[r] = self.refusals.get(r, 0) + 1
        for v in res.get("violations", ()):
            self.violation(v["sig"], v.get("witness", item), v.get("msg", ""))
        self.transitions += res.get("transitions", 0)
        if "sample" in res and len(self.samples) < self.max_samples:
            self.samples.append(res["sample"])

    # -- bookkeeping
    def cover(self, pred: str, n: int = 1, sample=None):
        self.cover_hits[pred] = self.cover_hits.get(pred, 0) + n
        if sample is not None and pred not in self.cover_samples:
            self.cover_samples[pred] = sample

    def violation(self, sig: dict, witness, msg: str = ""):
        self.violations.append({"sig": sig, "witness": witness, "msg": msg})

    def sample(self, obj):
        if len(self.samples) < self.max_samples:
            self.samples.append(obj)

    def note(self, key, value):
        self.notes[key] = value

    def out_of_time(self) -> bool:
        return self.deadline is not None and time.time() > self.deadline


def _worker_init_local(mod):
    global _MOD
    if _MOD is not mod:
        env.setup()
        _MOD = mod
        if hasattr(mod, "worker_init"):
            mod.worker_init()


# ----------------------------------------------------------------------------- known findings
def load_known():
    if not os.path.exists(KNOWN_FILE):
        return []
    with open(KNOWN_FILE) as f:
        return json.load(f).get("findings", [])


def sig_matches(match: dict, sig: dict) -> bool:
    for k, v in match.items():
        if k not in sig:
            return False
        sv = sig[k]
        if isinstance(v, list) and not isinstance(sv, list):
            if sv not in v:
                return False
        elif sv != v:
            return False
    return True


def classify(prop: str, violations):
    """Group by signature; split into known (listed, status 'known') and new."""
    known = [k for k in load_known() if k.get("property") == prop and k.get("status") == "known"]
    groups = {}
    for v in violations:
        key = jdump(v["sig"])
        g = groups.setdefault(key, {"sig": v["sig"], "items": []})
        g["items"].append(v)
    new, listed = [], {}
    for key, g in groups.items():
        hit = None
        for k in known:
            if sig_matches(k["match"], g["sig"]):
                hit = k
                break
        # shortest witness first
        g["items"].sort(key=lambda v: len(jdump(v["witness"])))
        if hit is None:
            new.append(g)
        else:
            listed.setdefault(hit["id"], {"entry": hit, "groups": []})["groups"].append(g)
    new.sort(key=lambda g: len(jdump(g["items"][0]["witness"])))
    return new, listed


def write_replay(prop: str, group) -> str:
    d = os.path.join(REPLAY_DIR, prop)
    os.makedirs(d, exist_ok=True)
    v = group["items"][0]
    name = digest(group["sig"]) + ".json"
    path = os.path.join(d, name)
    body = {
        "property": prop,
        "sig": group["sig"],
        "witness": v["witness"],
        "msg": v["msg"],
        "count": len(group["items"]),
        "how_to_replay": f"cd /verif && ./check {prop} --replay {path}",
        "repo": env.repo_state(),
    }
    with open(path, "w") as f:
        f.write(json.dumps(body, indent=1, sort_keys=True, default=_jdefault))
    return path


# ----------------------------------------------------------------------------- evidence
def write_evidence(mod, ctx: Ctx, n_new: int, n_known: int, status: str):
    os.makedirs(EVIDENCE_DIR, exist_ok=True)
    level = mod.LEVEL
    samples = list(ctx.samples)
    for p, s in ctx.cover_samples.items():
        if len(samples) < ctx.max_samples + 8:
            samples.append({"covers": p, "case": s})
    if not samples:
        samples = [{"note": "no samples recorded"}]
    cov = {
        "evaluations": int(ctx.evaluations),
        "distinct_nontrivial": int(len(ctx.digests)),
        "rule": mod.RULE,
        "samples": json.loads(jdump(samples)),
        "exhaustive": bool(ctx.exhaustive),
        "coverage_predicates": {p: int(ctx.cover_hits.get(p, 0)) for p in getattr(mod, "REQUIRED_COVER", [])},
        "other_predicates": {
            p: int(n) for p, n in sorted(ctx.cover_hits.items()) if p not in getattr(mod, "REQUIRED_COVER", [])
        },
        "refusals": {k: int(v) for k, v in sorted(ctx.refusals.items())},
        "outcome_digest": digest(sorted(ctx.digests)),
        "bounds": json.loads(jdump(ctx.notes)),
        "known_findings_reported": int(n_known),
        "status": status,
        "repo": env.repo_state(),
        "jobs": ctx.jobs,
    }
    if level == "model_checking":
        cov["states"] = int(ctx.states)
        cov["transitions"] = int(ctx.transitions)
        cov["traces_validated_against_impl"] = int(ctx.transitions)
    ev = {
        "property_id": mod.ID,
        "tier": ctx.tier,
        "seed": int(ctx.seed),
        "level": level,
        "coverage": cov,
        "assumptions": list(getattr(mod, "ASSUMPTIONS", [])),
        "wall_s": round(time.time() - ctx.t0, 2),
        "violations": int(n_new),
    }
    path = os.path.join(EVIDENCE_DIR, f"{mod.ID}.json")
    tmp = path + ".tmp"
    with open(tmp, "w") as f:
        f.write(json.dumps(ev, indent=1, sort_keys=True, default=_jdefault))
    os.replace(tmp, path)
    return path


# ----------------------------------------------------------------------------- main
def run_check(check_id: str, tier: str, seed: int, jobs: int) -> int:
    mod = importlib.import_module(f"vf.checks.{check_id.lower()}")
    ctx = Ctx(mod, tier, seed, jobs)
    status = "ok"
    try:
        mod.explore(ctx)
    except Exception:
        ctx.errors.append({"item": "explore", "error": traceback.format_exc()[-4000:]})
    finally:
        ctx.close()

    new, listed = classify(mod.ID, ctx.violations)
    rc = 0
    for kid, info in sorted(listed.items()):
        n = sum(len(g["items"]) for g in info["groups"])
        print(f"KNOWN-FINDING: property={mod.ID} {kid}: {info['entry']['what']} ({n} witnesses in this run)")
    for g in new:
        path = write_replay(mod.ID, g)
        print(f"VIOLATION property={mod.ID} replay={path}")
        print(f"  sig={jdump(g['sig'])} witnesses={len(g['items'])} msg={g['items'][0]['msg'][:300]}")
        rc = 1
    missing = [p for p in getattr(mod, "REQUIRED_COVER", []) if ctx.cover_hits.get(p, 0) == 0]
    if ctx.errors:
        status = "harness_error"
        for e in ctx.errors[:5]:
            print(f"HARNESS-ERROR property={mod.ID} item={jdump(e['item'])[:300]}\n{e['error']}", file=sys.stderr)
        print(f"HARNESS-ERROR property={mod.ID}: {len(ctx.errors)} work items crashed inside the harness")
        if rc == 0:
            rc = 2
    elif missing and not ctx.out_of_time():
        status = "coverage_unmet"
        print(f"HARNESS-ERROR property={mod.ID}: coverage predicates never hit: {missing}")
        if rc == 0:
            rc = 2
    if rc == 1:
        status = "violations"
    n_known = sum(len(i["groups"]) for i in listed.values())
    path = write_evidence(mod, ctx, len(new), n_known, status)
    kind = (
        f"states={ctx.states} transitions={ctx.transitions}" if mod.LEVEL == "model_checking" else ""
    )
    print(
        f"[{mod.ID}] tier={tier} seed={seed} evaluations={ctx.evaluations} distinct={len(ctx.digests)} {kind} "
        f"refusals={sum(ctx.refusals.values())} new_violations={len(new)} known={n_known} "
        f"exhaustive={ctx.exhaustive} wall={time.time()-ctx.t0:.1f}s evidence={path}"
    )
    return rc


def run_replay(check_id: str, path: str) -> int:
    env.setup()
    mod = importlib.import_module(f"vf.checks.{check_id.lower()}")
    with open(path) as f:
        body = json.load(f)
    if hasattr(mod, "worker_init"):
        mod.worker_init()
    vs = mod.replay(body["witness"])
    vs2 = mod.replay(body["witness"])
    s1 = sorted(jdump(v["sig"]) for v in vs)
    s2 = sorted(jdump(v["sig"]) for v in vs2)
    if s1 != s2:
        print(f"HARNESS-ERROR property={mod.ID}: replay not deterministic")
        return 2
    want = jdump(body["sig"])
    same = [v for v in vs if jdump(v["sig"]) == want]
    for v in vs:
        print(f"replayed: sig={jdump(v['sig'])} msg={v.get('msg','')[:400]}")
    if same:
        print(f"VIOLATION property={mod.ID} replay={path}")
        return 1
    if vs:
        print(f"VIOLATION property={mod.ID} replay={path}  (different signature than recorded)")
        return 1
    print(f"[{mod.ID}] replay {path}: witness no longer violates the property")
    return 0


def main(argv=None):
    ap = argparse.ArgumentParser(prog="check")
    ap.add_argument("check_id")
    ap.add_argument("--tier", default=os.environ.get("VERIF_TIER", "quick"), choices=["quick", "thorough"])
    ap.add_argument("--replay")
    ap.add_argument("--jobs", type=int, default=int(os.environ.get("VERIF_JOBS", "0")) or min(16, os.cpu_count() or 1))
    a = ap.parse_args(argv)
    seed = int(os.environ.get("VERIF_SEED", "0") or 0)
    if a.replay:
        return run_replay(a.check_id, a.replay)
    return run_check(a.check_id, a.tier, seed, a.jobs)


if __name__ == "__main__":
    sys.exit(main())
