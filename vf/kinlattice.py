"""Float alphabets for the kinetics checks (C03, C04, C14) and the seam through which the REAL jaxley kernels are driven.

Alphabets (DESIGN section 4): a dyadic lattice over the stated voltage interval (step 2^-4 quick, 2^-10 thorough; all
parameter alphabets are dyadic, hence every singular voltage is a lattice point), every float64 and every float32 within
+-64 ulp of each special point, and (thorough) every float32 of the interval in blocks of 2^24.  Nothing is sampled.
"""
from __future__ import annotations

import numpy as np

from vf import refkin

STATE_ALPHABET = [0.0, 2.0 ** -20, 0.2, 0.5, 1.0 - 2.0 ** -20, 1.0]
DT_ALPHABET = [1e-3, 0.025, 0.1, 1.0, 10.0, 1e3]
ULPS = 64
# half-width (mV) of the band around a singular voltage in which a violation is attributed to the 0/0 expression
# (cancellation in x/(exp(x)-1)); measured reach of the defect for the tolerances used: 1e-7 mV (float64, 1e-8) and
# 2e-3 mV (float32, 1e-4) -- outside the band a failure gets the "ordinary" signature.
BAND64 = 2.0 ** -16
BAND32 = 2.0 ** -6


# ----------------------------------------------------------------------------- lattices
def dyadic(lo, hi, log2step):
    n = int(round((hi - lo) * 2 ** log2step))
    return lo + np.arange(n + 1, dtype=np.float64) / 2.0 ** log2step


def _nbhd(x, k, ftype, itype):
    x = ftype(x)
    out = [x]
    a = b = x
    for _ in range(k):
        a = np.nextafter(a, ftype(-np.inf))
        b = np.nextafter(b, ftype(np.inf))
        out += [a, b]
    return np.sort(np.asarray(out, dtype=ftype))


def ulp64(x, k=ULPS):
    """Every float64 within +-k ulp of x (2k+1 values)."""
    return _nbhd(x, k, np.float64, np.int64)


def ulp32(x, k=ULPS):
    """Every float32 within +-k ulp of float32(x) (as float32)."""
    return _nbhd(x, k, np.float32, np.int32)


def special_points(mech, p, lo, hi):
    """[(kind, gate, voltage)] inside [lo, hi]: singular voltages and exp-clip thresholds from the reference
    equations, and the interval ends."""
    pts = []
    for g, vs in refkin.singular_voltages(mech, p).items():
        pts += [("singular", g, float(v)) for v in vs]
    for g, vs in refkin.clip_voltages(mech, p).items():
        pts += [("clip", g, float(v)) for v in vs]
    pts += [("end", "", float(lo)), ("end", "", float(hi))]
    return [(k, g, v) for k, g, v in pts if lo <= v <= hi]


def log2step(tier):
    return {"quick": 4, "wide": 7}.get(tier, 10)


def voltages64(mech, p, lo, hi, tier):
    """float64 voltage alphabet: lattice + float64 and float32 ulp-neighbourhoods of all special points."""
    parts = [dyadic(lo, hi, log2step(tier))]
    for _, _, v in special_points(mech, p, lo, hi):
        parts.append(ulp64(v))
        parts.append(ulp32(v).astype(np.float64))
    v = np.unique(np.concatenate(parts))
    return v[(v >= lo) & (v <= hi)]


def voltages32(mech, p, lo, hi, tier):
    """float32 voltage alphabet (lattice points are exactly representable: < 2^8 with <= 10 fractional bits)."""
    parts = [dyadic(lo, hi, log2step(tier)).astype(np.float32)]
    for _, _, v in special_points(mech, p, lo, hi):
        parts.append(ulp32(v))
    v = np.unique(np.concatenate(parts))
    return v[(v >= np.float32(lo)) & (v <= np.float32(hi))]


# ----------------------------------------------------------------------------- all float32 of an interval
def _f32_bits(x):
    return int(np.asarray(x, dtype=np.float32).view(np.uint32))


def float32_ranges(lo, hi):
    """Bit-pattern ranges [(first, last)] (uint32, inclusive) of all float32 in [lo, hi], lo < 0 < hi
    (negative half incl. -0.0, positive half incl. +0.0 and subnormals)."""
    assert lo < 0 < hi
    return [(0x80000000, _f32_bits(lo)), (0, _f32_bits(hi))]


def float32_blocks(lo, hi, log2size=24):
    """[(first_bits, count)] blocks covering every float32 of [lo, hi]."""
    size = 1 << log2size
    out = []
    for a, b in float32_ranges(lo, hi):
        k = a
        while k <= b:
            n = min(size, b - k + 1)
            out.append((k, n))
            k += n
    return out


def float32_block_values(first_bits, count):
    return (np.arange(count, dtype=np.uint64) + np.uint64(first_bits)).astype(np.uint32).view(np.float32)


# ----------------------------------------------------------------------------- regime buckets (from the reference)
def regimes(mech, gate, v, p, band):
    """Per voltage: 0 ordinary, 1 exp_clip (an exponent argument of the published kinetics > 20),
    2 singular_cancellation (0 < |v - v_s| <= band), 3 singular_exact."""
    v64 = np.asarray(v, dtype=np.float64)
    r = np.zeros(v64.shape, np.int8)
    r[refkin.clipped_mask(mech, gate, v64, p)] = 1
    for vs in refkin.singular_voltages(mech, p).get(gate, []):
        r[np.abs(v64 - vs) <= band] = 2
        r[v64 == vs] = 3
    return r


REGIME_NAMES = ["ordinary", "exp_clip", "singular_cancellation", "singular_exact"]


# ----------------------------------------------------------------------------- the implementation seam
_CLASSES = None


def classes():
    """name -> real jaxley class.  (The scratch experiment 'reference as implementation' replaces this table.)"""
    global _CLASSES
    if _CLASSES is None:
        from vf import env

        env.setup()
        from jaxley import channels as C
        from jaxley import synapses as S

        _CLASSES = {
            "HH": C.HH, "Na": C.Na, "K": C.K, "Km": C.Km, "CaL": C.CaL, "CaT": C.CaT, "Leak": C.Leak,
            "IonotropicSynapse": S.IonotropicSynapse, "TestSynapse": S.TestSynapse, "TanhRateSynapse": S.TanhRateSynapse,
        }
    return _CLASSES


def set_classes(table):
    global _CLASSES
    _CLASSES = dict(table)
    _JIT.clear()
    _INST.clear()


_INST = {}


def instance(mech, name=None, fresh=False):
    """A (cached) instance of the real mechanism class, optionally constructed with a name."""
    if fresh:
        return classes()[mech](name) if name else classes()[mech]()
    key = (mech, name)
    if key not in _INST:
        _INST[key] = classes()[mech](name) if name else classes()[mech]()
    return _INST[key]


def is_synapse(mech):
    return refkin.MECHS[mech]["kind"] == "synapse"


def full_params(mech, prefix, p, n, dtype, overrides=None):
    """Parameter dict as the module would hand it to the mechanism: one array entry per compartment for every
    parameter (defaults, kinetic parameter setting `p`, `overrides`), keyed with the real key names."""
    vals = refkin.defaults(mech)
    vals.update(p or {})
    vals.update(overrides or {})
    keys = refkin.param_keys(mech, prefix)
    return {keys[k]: np.full(n, val, dtype=dtype) for k, val in vals.items()}


_JIT = {}


def _jitted(inst, what):
    import jax

    key = (id(inst), what)
    if key not in _JIT:
        if what == "update":
            if isinstance_syn(inst):
                f = lambda states, dt, v, params: inst.update_states(states, dt, v, v, params)
            else:
                f = lambda states, dt, v, params: inst.update_states(states, dt, v, params)
        elif what == "current":
            if isinstance_syn(inst):
                f = lambda states, v, params: inst.compute_current(states, v, v, params)
            else:
                f = lambda states, v, params: inst.compute_current(states, v, params)
        else:
            raise KeyError(what)
        _JIT[key] = (jax.jit(f), inst)  # keep inst alive so id() stays unique
    return _JIT[key][0]


def isinstance_syn(inst):
    return hasattr(inst, "synapse_params")


def pad_to(a, m=None):
    """Pad a 1-d array by repeating its last element: to 64 if it is shorter, else to a multiple of 4096 (keeps the
    number of distinct shapes -- i.e. XLA compilations, eager or jitted -- small)."""
    n = len(a)
    if m is None:
        m = 64 if n <= 64 else 4096
    k = (-n) % m
    if k == 0:
        return a
    return np.concatenate([a, np.full(k, a[-1], dtype=a.dtype)])


def _padded(d, as_jax=True):
    import jax.numpy as jnp

    return {k: (jnp.asarray(pad_to(np.asarray(a))) if as_jax else pad_to(np.asarray(a))) for k, a in d.items()}


def run_update(inst, states, dt, v, params, jit=True):
    """REAL `update_states` on arrays.  states/params: dict key -> array (same length as v).  For synapses v is the
    presynaptic voltage (the postsynaptic one is passed too, same array).  Returns dict key -> numpy array."""
    import jax.numpy as jnp

    n = len(v)
    st, pr, vj = _padded(states), _padded(params), jnp.asarray(pad_to(np.asarray(v)))
    if jit:
        out = _jitted(inst, "update")(st, float(dt), vj, pr)
    elif isinstance_syn(inst):
        out = inst.update_states(st, float(dt), vj, vj, pr)
    else:
        out = inst.update_states(st, float(dt), vj, pr)
    return {k: np.asarray(a)[:n] for k, a in out.items()}


def run_current(inst, states, v, params, v_pre=None):
    """REAL `compute_current` (eager).  Channels: mA/cm2; synapses: nA (v = postsynaptic voltage)."""
    import jax.numpy as jnp

    n = len(v)
    st, pr, vj = _padded(states), _padded(params), jnp.asarray(pad_to(np.asarray(v)))
    if isinstance_syn(inst):
        pre = vj if v_pre is None else jnp.asarray(pad_to(np.asarray(v_pre)))
        out = inst.compute_current(st, pre, vj, pr)
    else:
        out = inst.compute_current(st, vj, pr)
    return np.broadcast_to(np.asarray(out), (len(vj),))[:n]


def run_init_state(inst, states, v, params, delta_t=0.025):
    """REAL `Channel.init_state` (eager; voltages as numpy and parameters as jax arrays, exactly as
    `Module.init_states` passes them)."""
    n = len(v)
    out = inst.init_state(_padded(states), pad_to(np.asarray(v)), _padded(params), delta_t)
    return {k: np.asarray(a)[:n] for k, a in out.items()}


def run_gate(inst, mech, gate, v, p):
    """REAL `<gate>_gate` static method; returns the raw pair it returns."""
    import jax.numpy as jnp

    f = getattr(inst, f"{gate}_gate")
    kin = refkin.MECHS[mech]["kin"]
    n = len(v)
    vj = jnp.asarray(pad_to(np.asarray(v)))
    args = [jnp.full(len(vj), p[k]) for k in kin]
    a, b = f(vj, *args)
    return np.asarray(a)[:n], np.asarray(b)[:n]


def fnum(x):
    """JSON-exact float (repr round-trips) with float32 values widened exactly."""
    return float(x)
