"""Enumerators of the bounded spaces (never sampled): trees, ncomp vectors, compositions, ..."""
from __future__ import annotations

import itertools
from typing import Iterator, List, Sequence, Tuple


def parent_vectors(n: int) -> Iterator[Tuple[int, ...]]:
    """All admissible parent vectors of a cell with n branches: p0=-1, p_i in [0, i-1]
    ((n-1)! of them, i.e. every rooted tree in every sibling order)."""
    if n == 1:
        yield (-1,)
        return
    for rest in itertools.product(*[range(i) for i in range(1, n)]):
        yield (-1,) + tuple(rest)


def ncomp_vectors(n: int, alphabet: Sequence[int]) -> Iterator[Tuple[int, ...]]:
    return itertools.product(alphabet, repeat=n)


def cells(max_branches: int, ncomp_alphabet: Sequence[int], min_branches: int = 1):
    """All (parents, ncomps) with min..max branches."""
    for n in range(min_branches, max_branches + 1):
        for p in parent_vectors(n):
            for nc in ncomp_vectors(n, ncomp_alphabet):
                yield p, nc


def compositions(n: int) -> Iterator[Tuple[int, ...]]:
    """All ordered compositions of n into parts >= 1 (2^(n-1))."""
    if n == 0:
        yield ()
        return
    for first in range(1, n + 1):
        for rest in compositions(n - first):
            yield (first,) + rest


def factorizations(max_depth: int, max_entry: int, min_prod: int, max_prod: int):
    """All tuples (depth<=max_depth, entries 1..max_entry) with min_prod <= prod <= max_prod."""
    for d in range(1, max_depth + 1):
        for t in itertools.product(range(1, max_entry + 1), repeat=d):
            p = 1
            for x in t:
                p *= x
            if min_prod <= p <= max_prod:
                yield t


def sequences(alphabet: Sequence, max_len: int, min_len: int = 0):
    for L in range(min_len, max_len + 1):
        yield from itertools.product(alphabet, repeat=L)


# ---- predicates on morphologies (coverage)
def levels(parents: Sequence[int]) -> List[int]:
    lv = []
    for i, p in enumerate(parents):
        lv.append(0 if p < 0 else lv[p] + 1)
    return lv


def children(parents: Sequence[int]):
    ch = {i: [] for i in range(len(parents))}
    for i, p in enumerate(parents):
        if p >= 0:
            ch[p].append(i)
    return ch


def padded_branches(parents, ncomps):
    """Branches shorter than the longest branch of their level (these are padded by the solver)."""
    lv = levels(parents)
    mx = {}
    for l, n in zip(lv, ncomps):
        mx[l] = max(mx.get(l, 0), n)
    return [i for i, (l, n) in enumerate(zip(lv, ncomps)) if n < mx[l]]


def morph_predicates(parents, ncomps) -> List[str]:
    out = []
    ch = children(parents)
    pad = padded_branches(parents, ncomps)
    if any(ch[b] for b in pad):
        out.append("padded_branch_with_children")
    if any(not ch[b] for b in pad):
        out.append("padded_leaf")
    if max(levels(parents)) >= 2:
        out.append("three_levels")
    if any(len(c) >= 3 for c in ch.values()):
        out.append("three_children_at_branchpoint")
    if len(parents) == 1:
        out.append("unbranched")
    if parents_first_mention_unsorted(parents):
        out.append("parent_first_mention_unsorted")
    return out


def parents_first_mention_unsorted(parents) -> bool:
    """The list of parents (in branch order) mentions a higher-index parent before a lower-index one for the first time,
    e.g. [-1, 0, 0, 2, 1]: code that de-duplicates parents by first appearance instead of sorting treats these differently."""
    q = [p for p in parents if p >= 0]
    fm = list(dict.fromkeys(q))
    return fm != sorted(fm)
