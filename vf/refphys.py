"""Reference physics, written from first principles in SI-derived units (never from jaxley's code).

Unit system: conductance uS, capacitance nF, current nA, voltage mV, time ms (uS*mV = nA,
nF*mV/ms = nA).  jaxley's documented units: radius/length um, r_a ohm cm, c_m uF/cm2,
g S/cm2, stimulus nA.

Morphology = forest: `parents[b]` is the parent branch of branch b (-1 for a root; a network is a
forest whose trees are its cells), `ncomps[b]` its number of compartments; compartments are
numbered branch by branch.  A child branch's first compartment and the parent's last compartment
meet at a zero-capacitance branch-point node (one node per parent that has children).
"""
from __future__ import annotations

from math import pi

import numpy as np


def comp_offsets(ncomps):
    return np.concatenate([[0], np.cumsum(ncomps)]).astype(int)


def areas_cm2(radius, length):
    return 2 * pi * np.asarray(radius, float) * np.asarray(length, float) * 1e-8


def assemble(parents, ncomps, radius, length, r_a, cm):
    """Returns (C[nF] (N,), G[uS] (N,N) axial Laplacian incl. branch-point nodes, n compartments)."""
    parents = list(parents)
    nb = len(parents)
    cum = comp_offsets(ncomps)
    n = int(cum[-1])
    radius = np.asarray(radius, float)
    length = np.asarray(length, float)
    r_a = np.asarray(r_a, float)
    cm = np.asarray(cm, float)
    C = cm * areas_cm2(radius, length) * 1e3  # uF -> nF
    # half-compartment axial resistance [ohm]: r_a[ohm cm] * (l/2)[cm] / (pi r^2)[cm^2]
    Rhalf = r_a * (length * 1e-4 / 2) / (pi * (radius * 1e-4) ** 2)
    par_with_children = sorted(set(p for p in parents if p >= 0))
    bp_of = {p: n + k for k, p in enumerate(par_with_children)}
    N = n + len(par_with_children)
    G = np.zeros((N, N))

    def couple(i, j, R_ohm):
        g = 1e6 / R_ohm  # S -> uS
        G[i, i] += g
        G[j, j] += g
        G[i, j] -= g
        G[j, i] -= g

    for b in range(nb):
        for k in range(cum[b], cum[b + 1] - 1):
            couple(k, k + 1, Rhalf[k] + Rhalf[k + 1])
    for b, p in enumerate(parents):
        if p >= 0:
            couple(cum[b], bp_of[p], Rhalf[cum[b]])
    for p, node in bp_of.items():
        last = cum[p + 1] - 1
        couple(last, node, Rhalf[last])
    Cfull = np.zeros(N)
    Cfull[:n] = C
    return Cfull, G, n


def reduce_branchpoints(G, n):
    """Schur complement: eliminate the zero-capacitance nodes -> (n,n) symmetric Laplacian."""
    if G.shape[0] == n:
        return G.copy()
    Gcc, Gcb, Gbc, Gbb = G[:n, :n], G[:n, n:], G[n:, :n], G[n:, n:]
    return Gcc - Gcb @ np.linalg.solve(Gbb, Gbc)


def step(scheme, v, dt, C, G, n, g_lin, i_const):
    """One voltage update of  C dv/dt = -G v - g_lin*v + i_const  (g_lin [uS], i_const [nA], per
    compartment; a passive leak g(v-E) has g_lin=g, i_const=g*E; a point stimulus adds to i_const).
    Branch-point nodes (rows >= n) carry no capacitance and no membrane current."""
    v = np.asarray(v, float)
    N = G.shape[0]
    if scheme == "bwd_euler":
        A = G.copy()
        A[np.arange(n), np.arange(n)] += C[:n] / dt + g_lin
        rhs = np.zeros(N)
        rhs[:n] = C[:n] / dt * v + i_const
        return np.linalg.solve(A, rhs)[:n]
    S = reduce_branchpoints(G, n) + np.diag(g_lin)
    Cn = C[:n]
    if scheme == "crank_nicolson":
        A = np.diag(Cn / dt) + S / 2
        rhs = (np.diag(Cn / dt) - S / 2) @ v + i_const
        return np.linalg.solve(A, rhs)
    if scheme == "fwd_euler":
        return v + dt * (-(S @ v) + i_const) / Cn
    raise ValueError(scheme)


def passive_step(scheme, parents, ncomps, val, v, dt, stim=None):
    """Convenience: passive (leak) model with a valuation dict (vals.valuation) and point stimuli
    `stim` = list of (comp, nA)."""
    C, G, n = assemble(parents, ncomps, val["radius"], val["length"], val["axial_resistivity"], val["capacitance"])
    A = areas_cm2(val["radius"], val["length"])
    g = val["g"] * A * 1e6  # S/cm2 * cm2 -> S -> uS
    i_const = g * val["e"]
    i_const = i_const.copy()
    for comp, amp in stim or []:
        i_const[comp] += amp
    return step(scheme, v, dt, C, G, n, g, i_const)


def backward_error(scheme, parents, ncomps, val, v, vnew, dt, stim=None):
    """Normwise backward error of vnew for the bwd_euler system (used for huge dt)."""
    C, G, n = assemble(parents, ncomps, val["radius"], val["length"], val["axial_resistivity"], val["capacitance"])
    A_ = areas_cm2(val["radius"], val["length"])
    g = val["g"] * A_ * 1e6
    S = reduce_branchpoints(G, n) + np.diag(g)
    i_const = g * val["e"]
    for comp, amp in stim or []:
        i_const[comp] += amp
    A = np.diag(C[:n] / dt) + S
    b = C[:n] / dt * v + i_const
    r = b - A @ vnew
    return float(np.linalg.norm(r, np.inf) / (np.linalg.norm(A, np.inf) * np.linalg.norm(vnew, np.inf) + np.linalg.norm(b, np.inf)))
