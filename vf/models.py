"""Small standard models (real jaxley modules) shared by the integrate-level checks."""
from __future__ import annotations

import numpy as np

from vf import build, vals


def _generic_geometry(m, vid=2):
    n = len(m.nodes)
    val = vals.valuation(n, vid)
    for key in ["radius", "length", "axial_resistivity", "capacitance"]:
        m.set(key, np.asarray(val[key]))
    # voltages away from the removable singularities of the rate functions (-40, -55 mV)
    m.set("v", -72.0 + 9.0 * vals.table("i", n, 5))
    return val


def _hh_states(m, salt=3):
    n = len(m.nodes)
    f = vals.table("i", n, salt)
    m.set("HH_m", 0.3 + 0.4 * (f + 0.5))
    m.set("HH_h", 0.2 + 0.5 * (0.5 - f))
    m.set("HH_n", 0.25 + 0.3 * (f + 0.5))


def comp_hh():
    J = build.jx()
    from jaxley.channels import HH

    m = J.Compartment()
    m.insert(HH())
    _generic_geometry(m)
    _hh_states(m)
    return m


def cell_hh_leak():
    """Cell ncomp [2,1]: HH on branch 0, Leak everywhere."""
    from jaxley.channels import HH, Leak

    m = build.cell_of([-1, 0], [2, 1])
    _generic_geometry(m)
    m.insert(Leak())
    m.branch(0).insert(HH())
    m.branch(0).set("HH_m", 0.35)
    m.branch(0).set("HH_h", 0.45)
    m.branch(0).set("HH_n", 0.3)
    m.set("Leak_gLeak", 2e-4)
    return m


def net_syn(homog=True):
    """Two cells ([2,1] and [2,1,1] or hetero) with HH, one Ionotropic and one Test synapse."""
    J = build.jx()
    from jaxley.channels import HH
    from jaxley.connect import connect
    from jaxley.synapses import IonotropicSynapse, TestSynapse

    c2 = build.cell_of([-1, 0, 0], [2, 1, 1] if homog else [1, 3, 2])
    net = J.Network([build.cell_of([-1, 0], [2, 1]), c2])
    _generic_geometry(net)
    net.insert(HH())
    _hh_states(net)
    connect(net.cell(0).branch(1).comp(0), net.cell(1).branch(2).comp(0), IonotropicSynapse())
    connect(net.cell(1).branch(0).comp(0), net.cell(0).branch(0).comp(1), TestSynapse())
    net.set("IonotropicSynapse_gS", 6e-4)
    net.set("IonotropicSynapse_s", 0.55)
    net.set("TestSynapse_gC", 4e-4)
    net.set("TestSynapse_c", 0.35)
    return net


_PUMP = {}


def pump_channel():
    """A user-defined channel (public Channel API) whose state update reads a membrane current (`i_Ca`), so that
    the current entries of the state dictionary matter for the dynamics (as in jaxley's own CaPump test channel)."""
    if "cls" not in _PUMP:
        import jax.numpy as jnp
        from jaxley.channels import Channel

        class CaAcc(Channel):
            def __init__(self, name=None):
                self.current_is_in_mA_per_cm2 = True
                super().__init__(name)
                self.channel_params = {f"{self._name}_tau": 2.0, f"{self._name}_gain": 500.0}
                self.channel_states = {"CaAcc_c": 0.1}
                self.current_name = "i_Ca"

            def update_states(self, u, dt, v, params):
                c = u["CaAcc_c"]
                c_inf = -params[f"{self._name}_gain"] * u["i_Ca"]
                e = jnp.exp(-dt / params[f"{self._name}_tau"])
                return {"CaAcc_c": c * e + c_inf * (1 - e)}

            def compute_current(self, u, v, params):
                return 0.0 * v

            def init_state(self, states, v, params, delta_t):
                return {}

        _PUMP["cls"] = CaAcc
    return _PUMP["cls"]()


_COUPLED = {}


def coupled_channels():
    """Two user-defined channels coupled through a STATE: `Zeta` relaxes its state towards a sigmoid of the voltage, `Alpha` (whose
    name sorts before `Zeta`) relaxes towards Zeta's state as it finds it in the state dictionary during its own update.  The result of
    a step depends on the order in which the module updates its channels, i.e. on the order of insertion -- which assembly must keep."""
    if "cls" not in _COUPLED:
        import jax.numpy as jnp
        from jaxley.channels import Channel

        class Zeta(Channel):
            def __init__(self, name=None):
                self.current_is_in_mA_per_cm2 = True
                super().__init__(name)
                self.channel_params = {"Zeta_tau": 0.05}
                self.channel_states = {"Zeta_z": 0.2}
                self.current_name = "i_Zeta"

            def update_states(self, u, dt, v, params):
                z_inf = 1.0 / (1.0 + jnp.exp(-(v + 60.0) / 8.0))
                e = jnp.exp(-dt / params["Zeta_tau"])
                return {"Zeta_z": u["Zeta_z"] * e + z_inf * (1 - e)}

            def compute_current(self, u, v, params):
                return 0.0 * v

            def init_state(self, states, v, params, delta_t):
                return {}

        class Alpha(Channel):
            def __init__(self, name=None):
                self.current_is_in_mA_per_cm2 = True
                super().__init__(name)
                self.channel_params = {"Alpha_tau": 0.04, "Alpha_g": 2e-3}
                self.channel_states = {"Alpha_a": 0.7, "Zeta_z": 0.2}  # a channel only sees the states it declares: Zeta_z is shared
                self.current_name = "i_Alpha"

            def update_states(self, u, dt, v, params):
                e = jnp.exp(-dt / params["Alpha_tau"])
                return {"Alpha_a": u["Alpha_a"] * e + u["Zeta_z"] * (1 - e)}  # reads the OTHER channel's state

            def compute_current(self, u, v, params):
                return params["Alpha_g"] * u["Alpha_a"] * (v + 80.0)

            def init_state(self, states, v, params, delta_t):
                return {}

        _COUPLED["cls"] = (Zeta, Alpha)
    Z, A = _COUPLED["cls"]
    return Z(), A()


def cell_pump():
    """Cell ncomp [2,1] with CaL and a channel that integrates the calcium current (reads `i_Ca`)."""
    from jaxley.channels import CaL, Leak

    m = build.cell_of([-1, 0], [2, 1])
    _generic_geometry(m)
    m.set("v", -45.0 + 10.0 * vals.table("i", len(m.nodes), 5))
    m.insert(Leak())
    m.insert(CaL())
    m.set("CaL_gCaL", 2e-3)
    m.set("CaL_q", 0.4)
    m.set("CaL_r", 0.6)
    m.insert(pump_channel())
    return m


MODELS = {"comp_hh": comp_hh, "cell_hh_leak": cell_hh_leak, "net_syn": net_syn, "cell_pump": cell_pump}


def stim_series(T, salt=0):
    """Deterministic time-varying current (nA)."""
    k = np.arange(T)
    return 0.05 + 0.04 * np.sin(1.3 * k + salt) + 0.03 * ((k + salt) % 3)


def clamp_series(T, salt=0):
    """Time-varying voltage clamp values (mV), never on a rate-function singularity."""
    k = np.arange(T)
    return -63.25 + 2.5 * np.cos(0.9 * k + salt) + 0.37 * (k % 2)
