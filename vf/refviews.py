"""Reference semantics of jaxley views for C11 -- deliberately boring.

A module is a list of compartments, each a global ``(cell, branch, comp)`` tuple; node id = row
position = global compartment index.  A view is an ordered list of node ids, an ordered list of
edge ids, a scope and a *kind* (what produced it).  Every selection step is a comprehension over
the rows of the current view; local indices are dense ranks within the parent among the rows
that are in view.  Nothing here imports jaxley or pandas.

Steps (plain JSON dicts)::

    {"op": "cell"|"branch"|"comp", "idx": IDX, "scope": None|"local"|"global"}
    {"op": "loc", "at": [[num, den], ...] , "form": "float"|"list"|"array", "scope": ...}
    {"op": "select", "nodes": IDX, "sorted": bool}      {"op": "select", "edges": IDX}
    {"op": "select", "nodes": IDX, "edges": IDX}
    {"op": "group"|"channel"|"syntype", "name": str}
    {"op": "edge", "idx": IDX}
    {"op": "scope"}                       # only the scope switch given by "scope"

``scope`` != None means ``.scope(scope)`` is called on the view before the operation.

IDX (JSON): {"f": "int"|"npint", "v": 3} | {"f": "list"|"array", "v": [..]} |
{"f": "range", "v": [start, stop, step]} | {"f": "slice", "v": [start, stop, step]} (None allowed,
non-negative) | {"f": "mask", "v": [bool..]} | {"f": "all"}.
"""
from __future__ import annotations

import itertools
from typing import Dict, List, Optional, Sequence, Tuple

LEVELS = ("cell", "branch", "comp")
HIER = {
    "comp": (),
    "branch": ("comp",),
    "cell": ("branch", "comp"),
    "net": ("cell", "branch", "comp"),
}
ROOT_KIND = {"comp": "comp", "branch": "branch", "cell": "cell", "net": "network"}
# kinds of views on which `[]` / `for x in view` address the next hierarchy level
CHILDREN_OF_KIND = {
    "network": ("cell", "branch", "comp"),
    "cell": ("branch", "comp"),
    "branch": ("comp",),
    "comp": (),
}


def dense_rank(values: Sequence[int]) -> Dict[int, int]:
    return {x: i for i, x in enumerate(sorted(set(values)))}


# ----------------------------------------------------------------------------- indices
def idx_member(idx: dict):
    """Predicate `int -> bool`: is the index value selected by IDX (for cell/branch/comp/edge)."""
    f = idx["f"]
    if f == "all":
        return lambda x: True
    if f in ("int", "npint"):
        v = int(idx["v"])
        return lambda x: x == v
    if f in ("list", "array"):
        s = set(int(x) for x in idx["v"])
        return lambda x: x in s
    if f == "range":
        r = range(*idx["v"])
        return lambda x: x in r
    if f == "slice":
        a, b, c = idx["v"]
        a = 0 if a is None else a
        c = 1 if c is None else c
        assert a >= 0 and c > 0 and (b is None or b >= 0), "negative slices are outside the alphabet"
        return lambda x: x >= a and (b is None or x < b) and (x - a) % c == 0
    if f == "mask":
        s = set(i for i, t in enumerate(idx["v"]) if t)
        return lambda x: x in s
    raise ValueError(f)


def idx_list(idx: dict, n_total: int, current: Sequence[int]) -> List[int]:
    """Explicit ordered list of labels for select(): positions into the base table."""
    f = idx["f"]
    if f == "all":
        return list(current)
    if f in ("int", "npint"):
        return [int(idx["v"])]
    if f in ("list", "array"):
        return [int(x) for x in idx["v"]]
    if f == "range":
        return list(range(*idx["v"]))
    if f == "slice":
        a, b, c = idx["v"]
        assert (a is None or a >= 0) and (b is None or b >= 0) and (c is None or c > 0)
        return list(range(n_total))[slice(a, b, c)]
    if f == "mask":
        return [i for i, t in enumerate(idx["v"]) if t]
    raise ValueError(f)


# ----------------------------------------------------------------------------- module
class RefModule:
    """Plain description -> rows / edges / groups / channel membership."""

    def __init__(self, desc: dict):
        self.desc = desc
        self.kind = desc["kind"]
        if self.kind == "comp":
            cells = [([-1], [1])]
        elif self.kind == "branch":
            cells = [([-1], [int(desc["ncomp"])])]
        elif self.kind == "cell":
            cells = [(desc["parents"], desc["ncomps"])]
        else:
            cells = [(c["parents"], c["ncomps"]) for c in desc["cells"]]
        self.rows: List[Tuple[int, int, int]] = []
        self.ncomp_of_branch: Dict[int, int] = {}
        self.first_node_of_branch: Dict[int, int] = {}
        self.cell_of_branch: Dict[int, int] = {}
        self._local: Dict[Tuple[int, int, int], int] = {}
        b = 0
        for ci, (_, ncomps) in enumerate(cells):
            for bl, n in enumerate(ncomps):
                self.ncomp_of_branch[b] = int(n)
                self.first_node_of_branch[b] = len(self.rows)
                self.cell_of_branch[b] = ci
                for k in range(int(n)):
                    self._local[(ci, bl, k)] = len(self.rows)
                    self.rows.append((ci, b, len(self.rows)))
                b += 1
        self.n = len(self.rows)
        self.levels = HIER[self.kind]
        # edges: (pre node, post node, type)
        self.edges: List[Tuple[int, int, str]] = []
        for s in desc.get("synapses", []):
            self.edges.append((self._local[tuple(s["pre"])], self._local[tuple(s["post"])], s["type"]))
        self.syn_types = sorted(set(t for _, _, t in self.edges))
        self.groups = {k: [int(x) for x in v] for k, v in desc.get("groups", {}).items()}
        self.channels = {k: set(int(x) for x in v) for k, v in desc.get("channels", {}).items()}

    def node_of_local(self, c, b, k) -> int:
        return self._local[(c, b, k)]

    def root(self, scope: str = "local") -> "RefView":
        return RefView(self, tuple(range(self.n)), tuple(range(len(self.edges))), scope, ROOT_KIND[self.kind])

    def branches_of_cells(self, cells) -> set:
        cells = set(cells)
        return {b for b, c in self.cell_of_branch.items() if c in cells}


class Expect:
    """What the reference allows for one step.

    outcomes: acceptable resulting views (usually one; several for a loc value on a compartment boundary);
    must_refuse: the step denotes nothing -> the implementation has to raise;
    may_refuse: raising is acceptable although the denoted set is not empty (documented weaker readings)."""

    __slots__ = ("outcomes", "must_refuse", "may_refuse", "reason")

    def __init__(self, outcomes, must_refuse=False, may_refuse=False, reason=""):
        self.outcomes = outcomes
        self.must_refuse = must_refuse
        self.may_refuse = may_refuse
        self.reason = reason

    @property
    def deterministic(self):
        return len(self.outcomes) == 1 and not self.may_refuse and not self.must_refuse


class RefView:
    __slots__ = ("m", "nodes", "edges", "scope", "kind")

    def __init__(self, m: RefModule, nodes, edges, scope, kind):
        self.m = m
        self.nodes = tuple(nodes)
        self.edges = tuple(edges)
        self.scope = scope
        self.kind = kind

    # -- basic tables
    def rows(self):
        return [self.m.rows[i] for i in self.nodes]

    def ranks(self) -> List[Tuple[int, int, int]]:
        """Dense ranks (local cell, local branch, local comp) aligned with self.nodes."""
        R = self.rows()
        rc = dense_rank([r[0] for r in R])
        by_cell: Dict[int, list] = {}
        by_branch: Dict[Tuple[int, int], list] = {}
        for r in R:
            by_cell.setdefault(r[0], []).append(r[1])
            by_branch.setdefault((r[0], r[1]), []).append(r[2])
        rb = {c: dense_rank(v) for c, v in by_cell.items()}
        rk = {cb: dense_rank(v) for cb, v in by_branch.items()}
        return [(rc[r[0]], rb[r[0]][r[1]], rk[(r[0], r[1])][r[2]]) for r in R]

    def index_values(self, level: str, scope: Optional[str] = None) -> List[int]:
        L = LEVELS.index(level)
        scope = scope or self.scope
        if scope == "global":
            return [r[L] for r in self.rows()]
        return [r[L] for r in self.ranks()]

    def entities(self, level: str, scope: Optional[str] = None) -> List[int]:
        """Distinct index values of that level in order of first appearance."""
        seen, out = set(), []
        for v in self.index_values(level, scope):
            if v not in seen:
                seen.add(v)
                out.append(v)
        return out

    def n_entities_global(self, level: str) -> int:
        return len(set(self.index_values(level, "global")))

    def canon(self):
        return (self.m.desc["name"], tuple(sorted(self.nodes)), tuple(sorted(self.edges)), self.scope)

    def key(self):
        return (self.nodes, self.edges, self.scope, self.kind)

    # -- helpers
    def _edges_within(self, nodes, edges=None) -> Tuple[int, ...]:
        """Edges (ascending id) of the current edge set with BOTH ends among nodes."""
        s = set(nodes)
        cur = self.edges if edges is None else edges
        return tuple(e for e in sorted(cur) if self.m.edges[e][0] in s and self.m.edges[e][1] in s)

    def _nodes_of_edges(self, edges) -> Tuple[int, ...]:
        """Endpoints of the edges that are in the current view (ascending id)."""
        ends = set()
        for e in edges:
            ends.add(self.m.edges[e][0])
            ends.add(self.m.edges[e][1])
        return tuple(sorted(i for i in self.nodes if i in ends))

    def _node_result(self, nodes, kind, scope, reason) -> Expect:
        if len(nodes) == 0:
            return Expect([], must_refuse=True, reason=reason + ":empty")
        return Expect([RefView(self.m, nodes, self._edges_within(nodes), scope, kind)], reason=reason)

    def _edge_result(self, edges, kind, scope, reason, may_refuse=False) -> Expect:
        nodes = self._nodes_of_edges(edges)
        if len(nodes) == 0:
            return Expect([], must_refuse=True, reason=reason + ":empty")
        return Expect([RefView(self.m, nodes, tuple(edges), scope, kind)], may_refuse=may_refuse, reason=reason)

    # -- unambiguous boolean masks (DESIGN §5): k-th entity in view has index value k
    def mask_ok(self, what: str, scope: Optional[str] = None) -> Optional[int]:
        """Length of an unambiguous mask for `what` in {"cell","branch","comp","nodes","edges"} or None."""
        scope = scope or self.scope
        if self.m.kind == "comp":
            return None  # a Compartment has shape (): jaxley accepts no mask at all
        if what in LEVELS:
            ents = self.entities(what, scope)
            n = len(ents)
            if ents != list(range(n)):
                return None
            if self.n_entities_global(what) != n:  # several parents share local ranks
                return None
            return n
        if what == "nodes":
            n = len(self.nodes)
            return n if list(self.nodes) == list(range(n)) else None
        if what == "edges":
            n = len(self.edges)
            return n if n > 0 and list(self.edges) == list(range(n)) else None
        raise ValueError(what)

    # -- the transition function
    def step(self, st: dict) -> Expect:
        scope = st.get("scope") or self.scope
        op = st["op"]
        m = self.m
        if op == "scope":
            return Expect([RefView(m, self.nodes, self.edges, scope, "view")], reason="scope")

        if op in LEVELS:
            if op not in m.levels:
                return Expect([], must_refuse=True, reason=f"{op}:unsupported_level")
            member = idx_member(st["idx"])
            vals = self.index_values(op, scope)
            nodes = tuple(i for i, v in zip(self.nodes, vals) if member(v))
            return self._node_result(nodes, op, scope, op)

        if op == "loc":
            return self._loc(st, scope)

        if op == "select":
            return self._select(st, scope)

        if op == "group":
            g = set(m.groups[st["name"]])
            nodes = tuple(sorted(i for i in self.nodes if i in g))
            return self._node_result(nodes, st["name"], scope, "group")

        if op == "channel":
            c = m.channels[st["name"]]
            nodes = tuple(i for i in self.nodes if i in c)
            return self._node_result(nodes, st["name"], scope, "channel")

        if op == "syntype":
            edges = tuple(e for e in self.edges if m.edges[e][2] == st["name"])
            return self._edge_result(edges, st["name"], scope, "syntype")

        if op == "edge":
            member = idx_member(st["idx"])
            if scope == "global":
                edges = tuple(e for e in self.edges if member(e))
                return self._edge_result(edges, "edge", scope, "edge_global")
            # local scope: jaxley defines local edge indices only on a synapse-type view
            edges = tuple(e for k, e in enumerate(self.edges) if member(k))
            ex = self._edge_result(edges, "edge", scope, "edge_local")
            if self.kind not in m.syn_types or st.get("scope"):
                # no local edge index available (KeyError today): refusal allowed, result unspecified
                return Expect(ex.outcomes, must_refuse=False, may_refuse=True, reason="edge_local_unsupported")
            return ex
        raise ValueError(op)

    def _select(self, st, scope) -> Expect:
        m = self
        mod = self.m
        has_n, has_e = "nodes" in st, "edges" in st
        outside = False
        nodes = edges = None
        if has_n:
            nodes = idx_list(st["nodes"], mod.n, self.nodes)
            if st.get("sorted"):
                nodes = sorted(nodes)
            if any(i not in set(self.nodes) for i in nodes):
                outside = True
        if has_e:
            edges = idx_list(st["edges"], mod.n, self.edges)
            if st.get("sorted"):
                edges = sorted(edges)
            if any(e not in set(self.edges) for e in edges):
                outside = True
        if outside:
            # labels outside the current view: pandas raises KeyError; the filtered view would be acceptable too
            cur_n, cur_e = set(self.nodes), set(self.edges)
            n2 = tuple(i for i in nodes if i in cur_n) if has_n else None
            e2 = tuple(e for e in edges if e in cur_e) if has_e else None
            ex = self._select_result(n2, e2, scope)
            return Expect(ex.outcomes, must_refuse=ex.must_refuse, may_refuse=True, reason="select_outside_view")
        return self._select_result(tuple(nodes) if has_n else None, tuple(edges) if has_e else None, scope)

    def _select_result(self, nodes, edges, scope) -> Expect:
        if nodes is not None and edges is None:
            return self._node_result(nodes, "filter", scope, "select_nodes")
        if nodes is None and edges is not None:
            return self._edge_result(edges, "filter", scope, "select_edges")
        if nodes is not None and edges is not None:
            if len(nodes) == 0:
                return Expect([], must_refuse=True, reason="select_both:empty")
            return Expect([RefView(self.m, nodes, edges, scope, "filter")], reason="select_both")
        return Expect([RefView(self.m, self.nodes, self.edges, scope, "filter")], reason="select_none")

    def _loc(self, st, scope) -> Expect:
        """loc(at): in every branch in view, the compartment containing the relative position `at`.
        A value exactly on an interior compartment boundary may select either neighbour."""
        m = self.m
        if "comp" not in m.levels:
            return Expect([], must_refuse=True, reason="loc:unsupported_level")
        ats = [(int(a), int(b)) for a, b in st["at"]]
        branches = []
        for r in self.rows():
            if r[1] not in branches:
                branches.append(r[1])
        fixed = set()
        choices = []  # list of (candidate a, candidate b)
        for b in branches:
            n = m.ncomp_of_branch[b]
            first = m.first_node_of_branch[b]
            for num, den in ats:
                assert 0 <= num <= den
                x = num * n
                if x % den == 0:
                    j = x // den
                    if j == 0:
                        fixed.add(first)
                    elif j == n:
                        fixed.add(first + n - 1)
                    else:
                        choices.append((first + j - 1, first + j))
                else:
                    fixed.add(first + x // den)
        outcomes, seen = [], set()
        any_empty = False
        for pick in itertools.product(*choices) if choices else [()]:
            sel = fixed | set(pick)
            nodes = tuple(i for i in self.nodes if i in sel)
            if nodes in seen:
                continue
            seen.add(nodes)
            if len(nodes) == 0:
                any_empty = True
            else:
                outcomes.append(RefView(m, nodes, self._edges_within(nodes), scope, "loc"))
        if not outcomes:
            return Expect([], must_refuse=True, reason="loc:empty")
        return Expect(outcomes, may_refuse=any_empty, reason="loc_boundary" if choices else "loc")

    # -- iteration: one sub-view per distinct index value, in order of first appearance
    def iter_level(self, level: str) -> List[Tuple[int, "RefView"]]:
        out = []
        for v in self.entities(level):
            ex = self.step({"op": level, "idx": {"f": "int", "v": v}})
            out.append((v, ex.outcomes[0]))
        return out


def loc_is_boundary(m: RefModule, view: RefView, ats) -> bool:
    for r in view.rows():
        n = m.ncomp_of_branch[r[1]]
        for num, den in ats:
            x = num * n
            if x % den == 0 and 0 < x // den < n:
                return True
    return False
