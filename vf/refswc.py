"""Reference SWC reader for C16 — implements ONLY the documented conventions of `jaxley.read_swc`.

It is written from the property statement, the docstrings of `read_swc` / `swc_to_jaxley` and the
explanatory comments next to the conventions, not from the reader's algorithm: it builds the point
tree (children lists), cuts it into sections by a recursive walk, and describes every section by a
radius *profile* (path position -> traced radius).  The implementation is then compared with the
profile up to tree isomorphism (no assumption on branch order) by `match`.

Conventions (source in brackets):
  R1  a section ("uninterrupted section", tutorial 08) is a maximal path of points that contains no
      branch point in its interior and whose own points have one SWC type [property: "one branch per
      unbranched same-type section"]; a section that does not start at the root starts at its
      attachment point (the parent of its first own point) [property: "parent-child connectivity"].
  R2  a soma that is a single traced point is a cylinder of equal area: length 2r, radius r
      [read_swc docstring].
  R3  the gap between a single-point soma and the first point of a neurite is ignored
      [comment in _compute_pathlengths, property text].
  R4  a section of traced length 0 gets length 1 um [warning text in swc_to_jaxley, property].
  R5  radii are linear in path length between traced points [property]; where a section of a new
      type starts, its first radius is that of its own first point, not the attachment point's
      [comment in _radius_generating_fns].
  R6  max_branch_len: a section longer than the value is cut, at traced points, into a chain of
      >=2 branches of the section's type, each below the value (when every traced segment is)
      [swc_to_jaxley docstring]; *where* it is cut is not documented and not judged.  Beyond 10
      sub-branches the reader stops splitting with a warning [_split_long_branches]: a section in
      >=10 pieces may keep pieces above the value.
  R7  several sections that start at the root point without any section ending there are joined by
      a 0.1 um junction branch of group `custom` [comment in swc_to_jaxley]; the junction is
      contracted before anything is compared.
  R8  groups: 1 soma, 2 axon, 3 basal, 4 apical [read_swc docstring].
"""
from __future__ import annotations

import itertools
import math
from typing import Dict, List, Optional

import numpy as np

GROUP_OF_TYPE = {0: "undefined", 1: "soma", 2: "axon", 3: "basal", 4: "apical", 5: "custom"}
TYPE_OF_GROUP = {v: k for k, v in GROUP_OF_TYPE.items()}


def parse(text: str) -> List[dict]:
    rows = []
    for line in text.splitlines():
        line = line.strip()
        if not line or line.startswith("#"):
            continue
        f = line.split()
        rows.append(
            {"id": int(f[0]), "type": int(f[1]), "xyz": (float(f[2]), float(f[3]), float(f[4])),
             "r": float(f[5]), "parent": int(f[6])}
        )
    for k, r in enumerate(rows):  # well-formedness assumed by the property
        assert r["id"] == k + 1 and (r["parent"] == -1) == (k == 0) and r["parent"] < r["id"]
    return rows


def _dist(a, b):
    return math.sqrt(sum((x - y) ** 2 for x, y in zip(a, b)))


def read(text: str, drop_multipoint_soma_gap: bool = False, stale_first_neurite_type: bool = False,
         root_junction_keeps_root_radius: bool = False) -> dict:
    """Sections of the file.  Returns {"sections": [...], "single_point_soma": bool, "root_junction": bool}.

    Each section: points (own point ids), attach (point id or None), parent (section index or -1),
    type, length (after R2-R4), raw_length, knots_s / knots_r (radius profile over [0, length]),
    segs (traced segment lengths that make up raw_length), zero_length, single_point.

    `drop_multipoint_soma_gap` selects the second admissible reading of R3 (see C16 ASSUMPTIONS).
    `stale_first_neurite_type` is NOT a convention: it models the known defect F13 (the first neurite
    of a single-point-soma file carries the type of the file's last row) and is used only to label
    violations that are consequences of it.  `root_junction_keeps_root_radius` likewise models a second
    defect (R5 not applied to sections that start at a bare root junction) for labelling only.
    """
    rows = parse(text)
    n = len(rows)
    typ = {r["id"]: r["type"] for r in rows}
    xyz = {r["id"]: r["xyz"] for r in rows}
    rad = {r["id"]: r["r"] for r in rows}
    kids: Dict[int, List[int]] = {r["id"]: [] for r in rows}
    for r in rows:
        if r["parent"] > 0:
            kids[r["parent"]].append(r["id"])

    def run(first):
        pts = [first]
        while len(kids[pts[-1]]) == 1 and typ[kids[pts[-1]][0]] == typ[first]:
            pts.append(kids[pts[-1]][0])
        return pts

    secs: List[dict] = []

    def grow(first, attach, parent):
        pts = run(first)
        secs.append({"points": pts, "attach": attach, "parent": parent, "type": typ[first]})
        me = len(secs) - 1
        for c in kids[pts[-1]]:
            grow(c, pts[-1], me)

    root = 1
    single_point_soma = False
    lone_root = not (len(kids[root]) == 1 and typ[kids[root][0]] == typ[root])
    if not lone_root:
        grow(root, None, -1)
    else:
        soma_continues = any(typ[c] == 1 for c in kids[root])
        if typ[root] == 1 and not soma_continues:
            single_point_soma = True  # R2
            secs.append({"points": [root], "attach": None, "parent": -1, "type": 1})
            for c in kids[root]:
                grow(c, root, 0)
        else:  # bare junction at the root point (R7)
            for c in kids[root]:
                grow(c, root, -1)

    if stale_first_neurite_type and single_point_soma and len(secs) > 1:
        secs[1]["type"] = rows[-1]["type"]

    for s in secs:
        pts, att = s["points"], s["attach"]
        s["single_point"] = att is None and len(pts) == 1
        if s["single_point"]:
            r0 = rad[pts[0]]
            s.update(raw_length=2 * r0, length=2 * r0, knots_s=[0.0, 2 * r0], knots_r=[r0, r0], segs=[],
                     zero_length=False, new_type=False)
            continue
        chain = pts if att is None else [att] + pts
        ptype = None if s["parent"] < 0 else secs[s["parent"]]["type"]
        # a section "of a new type": compared with the section it is attached to; for sections at a bare
        # root junction, with the root point
        if att is None:
            new_type = False
        elif s["parent"] >= 0:
            new_type = s["type"] != ptype
        else:
            new_type = s["type"] != typ[att] and not root_junction_keeps_root_radius
        radii = [rad[p] for p in chain]
        if new_type:
            radii[0] = radii[1]  # R5
        soma_gap = att is not None and typ[att] == 1 and typ[pts[0]] != 1
        if soma_gap and ((single_point_soma and att == root) or drop_multipoint_soma_gap):
            chain, radii = chain[1:], radii[1:]  # R3
        segs = [_dist(xyz[a], xyz[b]) for a, b in zip(chain[:-1], chain[1:])]
        raw = float(sum(segs))
        if raw == 0.0:  # R4
            s.update(raw_length=0.0, length=1.0, knots_s=[0.0, 1.0], knots_r=[radii[-1], radii[-1]], segs=[],
                     zero_length=True, new_type=new_type)
        else:
            ks = [0.0]
            for d in segs:
                ks.append(ks[-1] + d)
            s.update(raw_length=raw, length=raw, knots_s=ks, knots_r=radii, segs=segs, zero_length=False,
                     new_type=new_type)
    nroots = sum(1 for s in secs if s["parent"] == -1)
    return {"sections": secs, "single_point_soma": single_point_soma, "root_junction": nroots > 1, "n_points": n,
            "rows": rows}


def radius_at(sec: dict, pos) -> np.ndarray:
    return np.interp(np.asarray(pos, dtype=float), sec["knots_s"], sec["knots_r"])


def comp_radii(sec: dict, start: float, length: float, ncomp: int, min_radius: Optional[float]) -> np.ndarray:
    """Radii at the centres of `ncomp` equal compartments covering [start, start+length] of the section."""
    centres = start + (np.arange(ncomp) + 0.5) / ncomp * length
    r = radius_at(sec, centres)
    if min_radius is not None:
        r = np.maximum(r, min_radius)
    return r


# --------------------------------------------------------------------------- comparison with an implementation
LEVELS = ["structure", "types", "radii", "split"]


def match(ref: dict, impl: List[dict], ncomp: int, max_branch_len: Optional[float], min_radius: Optional[float],
          level: str, rtol_len: float = 1e-9, rtol_rad: float = 1e-4) -> bool:
    """Is the implementation's branch forest (junction already contracted) a rendering of the reference sections?

    impl: list of {"parent": int, "length": float, "type": int|None, "radii": [ncomp floats]}.
    A section may be rendered by a chain of branches (each the only child of the previous one) only if
    max_branch_len is given and the section is longer.  Children may come in any order.
    level "structure": lengths and parent relation; "types": + SWC type of every branch; "radii": + radii at
    compartment centres; "split": + R6 (sections above max_branch_len are cut, at traced points, into pieces
    below max_branch_len when every traced segment is).
    Tolerances: lengths 1e-9 relative (float64 sums of square roots, error ~1e-15); radii 1e-4*(1+r): the reader
    moves the first/last interpolation knot by 1e-8 of the branch, which changes radii by <= ~3e-7 um here, while
    a wrong knot or centre changes them by >= 1e-2 um with the generic radii used.
    """
    lv = LEVELS.index(level)
    secs = ref["sections"]
    rkids = {i: [] for i in range(-1, len(secs))}
    for i, s in enumerate(secs):
        rkids[s["parent"]].append(i)
    ikids = {i: [] for i in range(-1, len(impl))}
    for i, b in enumerate(impl):
        ikids[b["parent"]].append(i)
    mbl = max_branch_len

    def close(a, b):
        return abs(a - b) <= rtol_len * (1.0 + abs(b))

    def m_sec(ri, bi):
        sec = secs[ri]
        L = sec["length"]
        # a section can only be cut at an interior traced point: it needs >= 2 traced segments
        may_split = mbl is not None and L > mbl and len(sec["segs"]) >= 2
        acc, cur, pieces = 0.0, bi, []
        while True:
            pieces.append((cur, acc))
            acc += impl[cur]["length"]
            if close(acc, L):
                break
            if acc > L or not may_split or len(ikids[cur]) != 1:
                return False
            cur = ikids[cur][0]
        for b, start in pieces:
            if lv >= 1 and impl[b]["type"] != sec["type"]:
                return False
            if lv >= 2:
                want = comp_radii(sec, start, impl[b]["length"], ncomp, min_radius)
                got = np.asarray(impl[b]["radii"], dtype=float)
                if got.shape != want.shape or not np.all(np.abs(got - want) <= rtol_rad * (1.0 + np.abs(want))):
                    return False
            if lv >= 3 and may_split:
                if len(pieces) < 2:
                    return False
                if not any(close(start, k) for k in sec["knots_s"]):
                    return False
                # the reader documents that it stops splitting (with a warning) beyond 10 sub-branches
                if max(sec["segs"]) <= mbl and len(pieces) < 10 and impl[b]["length"] > mbl * (1 + 1e-12):
                    return False
        return m_set(rkids[ri], ikids[pieces[-1][0]])

    def m_set(rs, bs):
        if len(rs) != len(bs):
            return False
        if not rs:
            return True
        for perm in itertools.permutations(bs):
            if all(m_sec(r, b) for r, b in zip(rs, perm)):
                return True
        return False

    return m_set(rkids[-1], ikids[-1])


def summary(ref: dict) -> list:
    return [
        {"points": s["points"], "attach": s["attach"], "parent": s["parent"], "type": s["type"],
         "length": round(s["length"], 9)}
        for s in ref["sections"]
    ]
