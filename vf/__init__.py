"""vf — bounded-exhaustive exploration framework for jaxleyverse/jaxley (see /verif/DESIGN.md)."""
