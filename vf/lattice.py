"""Finite alphabets for real-valued inputs (DESIGN §4): dyadic lattices, geometric (octave) lattices,
±k-ulp neighbourhoods in float32/float64 and exhaustive float32 ranges.

Everything is deterministic and returned as sorted, duplicate-free float64 numpy arrays (every float32
value is exactly representable in float64).  Nothing here samples.

    dyadic(lo, hi, log2_step)            all multiples of 2**log2_step in [lo, hi]
    octaves(max_abs, min_exp, per_octave) +-2**e * (1 + j/per_octave): a geometric lattice of dyadic rationals
    ulp_neighbourhood(c, k, dtype)       every `dtype` float within +-k ulp of c (crosses zero correctly)
    neighbourhoods(points, k, dtypes)    union of the above over points and dtypes
    special_lattice(...)                 the usual union: dyadic core + octaves + neighbourhoods of special points
    ulp(x, dtype)                        spacing of `dtype` at |x| (vectorised)
    f32_count / f32_chunks / f32_values  enumerate EVERY float32 in [lo, hi] in index chunks
    saturation_point(f, lo, hi, dtype)   last/first float (bisection over the float order) at which a monotone
                                         function still differs from its value at the end of the interval
"""
from __future__ import annotations

import numpy as np

_INFO = {
    np.dtype(np.float64): (np.int64, np.uint64, 0x7FFFFFFFFFFFFFFF, 63),
    np.dtype(np.float32): (np.int32, np.uint32, 0x7FFFFFFF, 31),
}


# ----------------------------------------------------------------------------- float order <-> integers
def to_ordinal(x, dtype=np.float64) -> np.ndarray:
    """Monotone map float -> int64: consecutive floats of `dtype` map to consecutive integers;
    +-0.0 -> 0, negative floats -> negative integers. (x is rounded to dtype first.)"""
    dt = np.dtype(dtype)
    _, ut, mask, sh = _INFO[dt]
    with np.errstate(all="ignore"):
        a = np.asarray(x, dtype=dt)
    shape = a.shape
    bits = np.ascontiguousarray(a).reshape(-1).view(ut).astype(np.uint64).reshape(shape)
    mag = (bits & np.uint64(mask)).astype(np.int64)
    neg = (bits >> np.uint64(sh)).astype(bool)
    return np.where(neg, -mag, mag)


def from_ordinal(k, dtype=np.float64) -> np.ndarray:
    """Inverse of to_ordinal (returns an array of `dtype`)."""
    dt = np.dtype(dtype)
    _, ut, mask, sh = _INFO[dt]
    k = np.asarray(k, dtype=np.int64)
    mag = np.abs(k).astype(np.uint64)
    bits = np.where(k < 0, mag | (np.uint64(1) << np.uint64(sh)), mag)
    shape = bits.shape
    return np.ascontiguousarray(bits.astype(ut)).reshape(-1).view(dt).reshape(shape)


def max_ordinal(dtype=np.float64) -> int:
    """Ordinal of the largest finite float."""
    return int(to_ordinal(np.finfo(dtype).max, dtype))


def ulp(x, dtype=np.float64) -> np.ndarray:
    """Spacing of `dtype` at |x| (distance to the next float away from zero), as float64."""
    dt = np.dtype(dtype)
    a = np.abs(np.asarray(x, dtype=np.float64))
    if dt == np.dtype(np.float64):
        with np.errstate(all="ignore"):
            return np.spacing(a)
    with np.errstate(all="ignore"):
        a32 = a.astype(np.float32)
        # |x| rounded to f32 may round up to the next binade; the spacing there is still a valid (weaker) ulp
        return np.spacing(a32).astype(np.float64)


# ----------------------------------------------------------------------------- lattices
def _uniq(*arrs) -> np.ndarray:
    if not arrs:
        return np.zeros(0)
    a = np.concatenate([np.asarray(x, dtype=np.float64).ravel() for x in arrs])
    a = a[np.isfinite(a)]
    a = np.unique(a)  # sorted; -0.0 == 0.0 collapse
    a[a == 0] = 0.0
    return a


def dyadic(lo: float, hi: float, log2_step: int) -> np.ndarray:
    """All multiples of 2**log2_step inside [lo, hi] (exact in float64 as long as |x|/step < 2**53)."""
    step = 2.0 ** log2_step
    k0 = int(np.ceil(lo / step))
    k1 = int(np.floor(hi / step))
    return np.arange(k0, k1 + 1, dtype=np.float64) * step


def octaves(max_abs: float, min_exp: int = -80, per_octave: int = 4, signed: bool = True, max_exp=None) -> np.ndarray:
    """Geometric lattice of dyadic rationals: 2**e * (1 + j/per_octave), e = min_exp .. floor(log2(max_abs)),
    j = 0 .. per_octave-1, clipped to <= max_abs; optionally mirrored; always contains max_abs itself."""
    if max_exp is None:
        max_exp = int(np.floor(np.log2(max_abs)))
    e = np.arange(min_exp, max_exp + 1, dtype=np.float64)
    j = np.arange(per_octave, dtype=np.float64) / per_octave
    with np.errstate(all="ignore"):
        v = (np.exp2(e)[:, None] * (1.0 + j)[None, :]).ravel()
    v = v[(v > 0) & (v <= max_abs)]
    v = np.concatenate([v, [max_abs]])
    if signed:
        v = np.concatenate([-v, v])
    return _uniq(v)


def tiny(signed: bool = True) -> np.ndarray:
    """Smallest subnormal / smallest normal of float64 and float32."""
    v = np.array([2.0 ** -1074, 2.0 ** -1022, 2.0 ** -149, 2.0 ** -126])
    return _uniq(np.concatenate([-v, v]) if signed else v)


def ulp_neighbourhood(c: float, k: int = 64, dtype=np.float64) -> np.ndarray:
    """Every float of `dtype` within +-k ulp (k floats below .. k floats above) of c rounded to `dtype`,
    as float64.  Around 0 these are the subnormals +-1..k * min_subnormal."""
    c0 = int(to_ordinal(c, dtype))
    m = max_ordinal(dtype)
    ks = np.arange(max(c0 - k, -m), min(c0 + k, m) + 1, dtype=np.int64)
    return from_ordinal(ks, dtype).astype(np.float64)


def neighbourhoods(points, k: int = 64, dtypes=(np.float64, np.float32)) -> np.ndarray:
    out = []
    for c in points:
        if not np.isfinite(c):
            continue
        for dt in dtypes:
            out.append(ulp_neighbourhood(float(c), k, dt))
    return _uniq(*out) if out else np.zeros(0)


def special_lattice(
    lo: float,
    hi: float,
    core=(-64.0, 64.0, -4),
    specials=(),
    k: int = 64,
    per_octave: int = 4,
    min_exp: int = -80,
    dtypes=(np.float64, np.float32),
    extra=(),
) -> np.ndarray:
    """Union of: dyadic core lattice (core = (lo, hi, log2_step)), signed octave lattice up to max(|lo|,|hi|),
    the smallest subnormals/normals, the interval ends, `extra` points, and every float of each dtype within
    +-k ulp of every special point; restricted to [lo, hi]."""
    parts = [
        dyadic(max(lo, core[0]), min(hi, core[1]), core[2]),
        octaves(max(abs(lo), abs(hi)), min_exp=min_exp, per_octave=per_octave),
        tiny(),
        np.array([lo, hi, 0.0]),
        np.asarray(list(extra), dtype=np.float64),
        neighbourhoods(specials, k, dtypes),
    ]
    a = _uniq(*parts)
    return a[(a >= lo) & (a <= hi)]


def as_f32_lattice(points) -> np.ndarray:
    """The float32 lattice obtained by rounding every point to float32 (sorted, unique, dtype float32)."""
    with np.errstate(all="ignore"):
        a = np.asarray(points, dtype=np.float64).astype(np.float32)
    a = a[np.isfinite(a)]
    a = np.unique(a)
    a[a == 0] = 0.0
    return a


# ----------------------------------------------------------------------------- exhaustive float32
def f32_count(lo: float, hi: float) -> int:
    """Number of float32 values in [lo, hi] (lo, hi rounded inwards to float32)."""
    k0, k1 = _f32_bounds(lo, hi)
    return max(0, k1 - k0 + 1)


def _f32_bounds(lo, hi):
    k0 = int(to_ordinal(lo, np.float32))
    if float(from_ordinal(k0, np.float32)) < lo:
        k0 += 1
    k1 = int(to_ordinal(hi, np.float32))
    if float(from_ordinal(k1, np.float32)) > hi:
        k1 -= 1
    return k0, k1


def f32_chunks(lo: float, hi: float, chunk: int = 1 << 24):
    """List of (first_ordinal, n) covering every float32 in [lo, hi]; consecutive chunks overlap by one
    value so that a check across consecutive values (monotonicity) has no gaps."""
    k0, k1 = _f32_bounds(lo, hi)
    out = []
    s = k0
    while s <= k1:
        n = min(chunk, k1 - s + 1)
        out.append((int(s), int(n)))
        if s + n - 1 >= k1:
            break
        s = s + n - 1
    return out


def f32_values(first_ordinal: int, n: int) -> np.ndarray:
    """The n consecutive float32 values starting at the given ordinal (dtype float32, ascending)."""
    return from_ordinal(np.arange(first_ordinal, first_ordinal + n, dtype=np.int64), np.float32)


# ----------------------------------------------------------------------------- saturation points
def saturation_point(f, lo: float, hi: float, side: str, dtype=np.float64):
    """For a monotone scalar function f evaluated in `dtype`: side="upper" -> the smallest float x in [lo, hi]
    with f(x) == f(hi); side="lower" -> the largest float x with f(x) == f(lo).  Bisection over the float
    order, ~64 evaluations.  Returns a python float."""
    a, b = int(to_ordinal(lo, dtype)), int(to_ordinal(hi, dtype))

    def val(k):
        x = from_ordinal(np.array([k]), dtype)
        with np.errstate(all="ignore"):
            return np.asarray(f(x), dtype=dtype)[0]

    if side == "upper":
        target = val(b)
        while a < b:  # invariant: f(b) == target
            m = (a + b) // 2
            if val(m) == target:
                b = m
            else:
                a = m + 1
        return float(from_ordinal(np.array([b]), dtype)[0])
    target = val(a)
    while a < b:
        m = (a + b + 1) // 2
        if val(m) == target:
            a = m
        else:
            b = m - 1
    return float(from_ordinal(np.array([a]), dtype)[0])
