"""Construct real jaxley modules from plain descriptions (public API only)."""
from __future__ import annotations

import numpy as np

from vf import env, vals


def jx():
    env.setup()
    import jaxley

    return jaxley


def cell_of(parents, ncomps):
    J = jx()
    comp = J.Compartment()
    branches = [J.Branch([comp] * int(n)) for n in ncomps]
    return J.Cell(branches, parents=[int(p) for p in parents])


def split_forest(parents, ncomps):
    """Forest -> list of (parents_local, ncomps) per tree (trees must be contiguous)."""
    roots = [i for i, p in enumerate(parents) if p < 0]
    out = []
    for k, r in enumerate(roots):
        end = roots[k + 1] if k + 1 < len(roots) else len(parents)
        ps = [-1 if parents[i] < 0 else parents[i] - r for i in range(r, end)]
        out.append((ps, list(ncomps[r:end])))
    return out


def forest_of(cells):
    """list of (parents, ncomps) -> global forest (parents, ncomps)."""
    P, N, off = [], [], 0
    for ps, ns in cells:
        P += [-1 if p < 0 else p + off for p in ps]
        N += list(ns)
        off += len(ps)
    return P, N


def module_of(desc):
    """desc: {"kind": "comp"|"branch"|"cell"|"net", ...}."""
    J = jx()
    k = desc["kind"]
    if k == "comp":
        return J.Compartment()
    if k == "branch":
        return J.Branch([J.Compartment()] * int(desc["ncomp"]))
    if k == "cell":
        return cell_of(desc["parents"], desc["ncomps"])
    if k == "net":
        return J.Network([cell_of(c["parents"], c["ncomps"]) for c in desc["cells"]])
    raise ValueError(k)


def forest_of_desc(desc):
    k = desc["kind"]
    if k == "comp":
        return [-1], [1]
    if k == "branch":
        return [-1], [int(desc["ncomp"])]
    if k == "cell":
        return list(desc["parents"]), list(desc["ncomps"])
    if k == "net":
        return forest_of([(c["parents"], c["ncomps"]) for c in desc["cells"]])
    raise ValueError(k)


def apply_passive_valuation(module, val, leak=True):
    """Set geometry/electrical parameters per compartment and insert a Leak channel with
    per-compartment g and E (public set() with arrays over the whole module)."""
    J = jx()
    from jaxley.channels import Leak

    for key in ["radius", "length", "axial_resistivity", "capacitance"]:
        module.set(key, np.asarray(val[key]))
    module.set("v", np.asarray(val["v"]))
    if leak:
        module.insert(Leak())
        module.set("Leak_gLeak", np.asarray(val["g"]))
        module.set("Leak_eLeak", np.asarray(val["e"]))
    return module


def eager_step(module, solver, voltage_solver, dt, externals=None, external_inds=None, nsteps=1, params=None):
    """Drive the init_fn/step_fn seam eagerly. Returns list of voltage arrays [v0, v1, ...] and final state."""
    import jax.numpy as jnp
    from jaxley.integrate import build_init_and_step_fn

    module.to_jax()
    init_fn, step_fn = build_init_and_step_fn(module, voltage_solver=voltage_solver, solver=solver)
    states, all_params = init_fn(params or [], None, None, dt)
    vs = [np.asarray(states["v"]).copy()]
    ext = externals or {}
    inds = external_inds or {}
    for k in range(nsteps):
        ext_k = {key: jnp.asarray(arr)[:, k] if np.ndim(arr) == 2 else jnp.asarray(arr) for key, arr in ext.items()}
        states = step_fn(states, all_params, ext_k, {k_: np.asarray(v) for k_, v in inds.items()}, dt)
        vs.append(np.asarray(states["v"]).copy())
    return vs, states
