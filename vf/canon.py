"""Canonical, comparable snapshot of a jaxley module's public state."""
from __future__ import annotations

import hashlib
import json

import numpy as np


SIG_DIGITS = None  # set to an int to round floats (states equal up to round-off are merged)


def _rnd(x):
    if SIG_DIGITS is None or x == 0 or not np.isfinite(x):
        return float(x)
    return float(f"{x:.{SIG_DIGITS}g}")


def _arr(a):
    a = np.asarray(a)
    if a.dtype.kind == "f":
        return [None if np.isnan(x) else _rnd(x) for x in a.ravel().tolist()] + [list(a.shape)]
    if a.dtype.kind in "iub":
        return a.ravel().tolist() + [list(a.shape)]
    return [str(x) for x in a.ravel().tolist()] + [list(a.shape)]


def _table(df, drop=()):
    if df is None or len(df.columns) == 0 or len(df) == 0:
        return {"cols": [], "index": [], "data": {}}
    cols = sorted(c for c in df.columns if c not in drop)
    return {"cols": cols, "index": [int(i) for i in df.index], "data": {c: _arr(df[c].to_numpy()) for c in cols}}


def snapshot(m, with_xyzr: bool = False) -> dict:
    s = {
        "type": type(m).__name__,
        "nodes": _table(m.nodes),
        "edges": _table(m.edges),
        "recordings": _table(m.recordings),
        "externals": {k: _arr(v) for k, v in sorted(m.externals.items())},
        "external_inds": {k: _arr(v) for k, v in sorted(m.external_inds.items())},
        # a group is a SET of compartments: every consumer (`module.<group>` views, set_ncomp re-indexing) filters rows by membership,
        # so the order in which the indices are stored is unobservable (a group first registered from a non-ascending selection
        # keeps that order until set_ncomp or a second add_to_group sorts it); duplicates would be observable and are kept
        "groups": {k: _arr(np.sort(np.asarray(v))) for k, v in sorted(m.groups.items())},
        "trainable_params": [{k: _arr(v) for k, v in p.items()} for p in m.trainable_params],
        "indices_set_by_trainables": [_arr(i) for i in m.indices_set_by_trainables],
        "channels": [c._name for c in m.channels],
        "membrane_current_names": list(m.membrane_current_names),
        "synapse_names": list(m.synapse_names),
        "synapse_param_names": list(m.synapse_param_names),
        "synapse_state_names": list(m.synapse_state_names),
        "synapse_current_names": list(m.synapse_current_names),
        "ncomp_per_branch": _arr(m.ncomp_per_branch) if hasattr(m, "ncomp_per_branch") else None,
        "comb_parents": _arr(m.comb_parents),
    }
    if with_xyzr:
        s["xyzr"] = [_arr(x) for x in m.xyzr]
    return s


def hash_of(snap: dict) -> str:
    return hashlib.sha256(json.dumps(snap, sort_keys=True).encode()).hexdigest()[:20]


def diff(a: dict, b: dict, path="") -> list:
    """List of paths at which two snapshots differ."""
    out = []
    if type(a) != type(b):
        return [path]
    if isinstance(a, dict):
        for k in sorted(set(a) | set(b)):
            if k not in a or k not in b:
                out.append(f"{path}/{k}")
            else:
                out += diff(a[k], b[k], f"{path}/{k}")
        return out
    if a != b:
        return [path]
    return out
