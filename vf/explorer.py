"""Explicit-state BFS over operation histories on real modules (replay from scratch, canonical hashing).

A check that uses it provides (module-level, so that workers can import them):
    INITS: {name: builder() -> module}
    OPS:   {name: callable(module)}            (insertion order = alphabet order, simplest first)
    invariants(module, history) -> list[(rule, detail_key, message)]
    simulate_state(module, history) -> list[(rule, detail_key, message)]     (optional, expensive; run once per distinct state)
and exposes work functions `expand` and `simulate` that simply call the helpers below.
"""
from __future__ import annotations

import copy

from vf import canon

_init_cache = {}


def fresh(mod, init_name):
    if getattr(mod, "FRESH_FROM_SCRATCH", False):
        # built anew every time: a deep copy of a cached module is a COPY (C18 is about whether copies are faithful; e.g. index arrays
        # that are read-only in a freshly built module are writeable, and still shared, in its copies)
        return mod.INITS[init_name]()
    key = (mod.ID, init_name)
    if key not in _init_cache:
        _init_cache[key] = mod.INITS[init_name]()
    return copy.deepcopy(_init_cache[key])


def replay(mod, init_name, hist):
    m = fresh(mod, init_name)
    for op in hist:
        mod.OPS[op](m)
    return m


def ops_for(mod, init):
    table = getattr(mod, "OPS_FOR", None)
    return list(table[init]) if table else list(mod.OPS)


def expand_item(mod, item):
    """Apply every op of the alphabet to the state reached by item['hist']; return successors."""
    init, hist = item["init"], list(item["hist"])
    ops = item.get("ops") or ops_for(mod, init)
    base = replay(mod, init, hist)
    succ = []
    out = {"violations": [], "cover": [], "refusals": [], "digests": [], "evals": 0, "transitions": 0, "succ": succ}
    parent_hash = canon.hash_of(canon.snapshot(base))
    for op in ops:
        m = copy.deepcopy(base)
        try:
            mod.OPS[op](m)
        except Exception as e:  # a refused operation is no transition
            out["refusals"].append(f"{op}:{type(e).__name__}")
            continue
        out["transitions"] += 1
        out["evals"] += 1
        h = hist + [op]
        snap = canon.snapshot(m)
        hsh = canon.hash_of(snap)
        errs = mod.invariants(m, h, parent_hash=parent_hash, hash_=hsh, item=item)
        for rule, detail, msg in errs:
            out["violations"].append({"sig": {"rule": rule, "detail": detail, "init": init if mod.SIG_INIT else "*"},
                                      "witness": {"init": init, "history": h, "phase": "invariants"}, "msg": msg})
        succ.append({"op": op, "hash": hsh, "nerr": len(errs),
                     "label": (mod.state_label_hist(m, h) if hasattr(mod, "state_label_hist") else
                               mod.state_label(m) if hasattr(mod, "state_label") else None)})
        for c in mod.cover_of(m, h):
            out["cover"].append(c)
    return out


def simulate_item(mod, item):
    out = {"violations": [], "cover": [], "refusals": [], "digests": [], "evals": 0, "transitions": 0}
    for st in item["states"]:
        init, hist = st["init"], list(st["hist"])
        try:
            m = replay(mod, init, hist)
        except Exception as e:
            out["violations"].append({"sig": {"rule": "replay_not_deterministic", "detail": type(e).__name__, "init": init},
                                      "witness": {"init": init, "history": hist, "phase": "simulate"}, "msg": str(e)[:200]})
            continue
        out["evals"] += 1
        res = mod.simulate_state(m, hist)
        for rule, detail, msg in res["errs"]:
            out["violations"].append({"sig": {"rule": rule, "detail": detail, "init": init if mod.SIG_INIT else "*"},
                                      "witness": {"init": init, "history": hist, "phase": "simulate"}, "msg": msg})
        out["refusals"] += res.get("refusals", [])
        out["cover"] += res.get("cover", [])
        out["digests"] += res.get("digests", [])
    return out


def _want_sim(mod, init, hist, sim_depth):
    if hasattr(mod, "want_sim"):
        return mod.want_sim(init, hist, sim_depth)
    return sim_depth is None or len(hist) <= sim_depth


def bfs(ctx, mod, inits, depth, sim_depth=None, expand_chunk=None):
    """Level-synchronous BFS. Returns dict hash -> (init, shortest history)."""
    seen = {}
    frontier = []
    for init in inits:
        m = fresh(mod, init)
        h = canon.hash_of(canon.snapshot(m))
        seen[(init, h)] = (init, [])
        frontier.append((init, []))
    to_sim = [{"init": i, "hist": h} for i, h in frontier]
    n_trans = 0
    labels = {}
    for d in range(depth):
        if ctx.out_of_time():
            ctx.exhaustive = False
            ctx.note("stopped_at_depth", d)
            break
        items = []
        for init, hist in frontier:
            ops = ops_for(mod, init)
            ch = expand_chunk or len(ops)
            for i in range(0, len(ops), ch):
                items.append({"init": init, "hist": hist, "ops": ops[i:i + ch]})
        res = ctx.map("expand", items)
        nxt = []
        for item, r in res:
            if not r or "succ" not in r:
                continue
            n_trans += r.get("transitions", 0)
            for s in r["succ"]:
                if s.get("label") is not None:
                    labels.setdefault((item["init"], s["label"]), {}).setdefault(s["hash"], list(item["hist"]) + [s["op"]])
                key = (item["init"], s["hash"])
                if key not in seen:
                    hist = list(item["hist"]) + [s["op"]]
                    seen[key] = (item["init"], hist)
                    if s["nerr"] == 0 or mod.EXPAND_BROKEN_STATES:
                        nxt.append((item["init"], hist))
                    if s["nerr"] == 0 and _want_sim(mod, item["init"], hist, sim_depth):
                        to_sim.append({"init": item["init"], "hist": hist})
        frontier = nxt
        ctx.note(f"states_after_depth_{d+1}", len(seen))
    ctx.states = len(seen)
    ctx.labels = labels
    ctx.note("frontier_unexpanded", len(frontier))
    if hasattr(mod, "simulate_state") and to_sim:
        chunk = 4
        items = [{"states": to_sim[i:i + chunk]} for i in range(0, len(to_sim), chunk)]
        ctx.map("simulate", items)
        ctx.note("states_simulated", len(to_sim))
    return seen
