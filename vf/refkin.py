"""Reference kinetics typed from the publications (never transliterated from jaxley).

Sources
  HH    Hodgkin & Huxley 1952 in the modern sign convention at 6.3 C, exactly as NEURON's hh.mod:
          alpha_m = 0.1 (v+40)/(1-exp(-(v+40)/10))   beta_m = 4 exp(-(v+65)/18)
          alpha_h = 0.07 exp(-(v+65)/20)             beta_h = 1/(1+exp(-(v+35)/10))
          alpha_n = 0.01 (v+55)/(1-exp(-(v+55)/10))  beta_n = 0.125 exp(-(v+65)/80)
          gNa .12 gK .036 gL .0003 S/cm2, ENa 50, EK -77, EL -54.3 mV;  I = gNa m^3 h (v-ENa) + gK n^4 (v-EK) + gL (v-EL)
  Pospischil et al., Biol Cybern 99:427 (2008), appendix:
          Na  alpha_m = -0.32 (v-vt-13)/(exp(-(v-vt-13)/4)-1)   beta_m = 0.28 (v-vt-40)/(exp((v-vt-40)/5)-1)
              alpha_h = 0.128 exp(-(v-vt-17)/18)                 beta_h = 4/(1+exp(-(v-vt-40)/5))      I = g m^3 h (v-ENa)
          K   alpha_n = -0.032 (v-vt-15)/(exp(-(v-vt-15)/5)-1)  beta_n = 0.5 exp(-(v-vt-10)/40)        I = g n^4 (v-EK)
          Km  p_inf = 1/(1+exp(-(v+35)/10))   tau_p = taumax/(3.3 exp((v+35)/20)+exp(-(v+35)/20))        I = g p (v-EK)
          CaL alpha_q = 0.055 (-27-v)/(exp((-27-v)/3.8)-1)      beta_q = 0.94 exp((-75-v)/17)
              alpha_r = 0.000457 exp((-13-v)/50)                 beta_r = 0.0065/(exp((-15-v)/28)+1)    I = g q^2 r (v-ECa)
          CaT s_inf = 1/(1+exp(-(v+vx+57)/6.2))   u_inf = 1/(1+exp((v+vx+81)/4))
              tau_u = (30.8+(211.4+exp((v+vx+113.2)/5)))/(3.7 (1+exp((v+vx+84)/3.2)))                    I = g s_inf^2 u (v-ECa)
          Leak I = g (v-E)
  Abbott & Marder 1998 (Modeling small networks):  ds/dt = (s_inf(v_pre) - s)/tau_s,
          s_inf = 1/(1+exp((v_th - v_pre)/delta)),  tau_s = (1 - s_inf)/k_minus,  v_th = -35, delta = 10,
          I = gS s (v_post - e_syn)   (uS * mV = nA).   TestSynapse: the same with k_minus = 1/40 and e_syn = 0.

Every removable 0/0 singularity is filled with its limit (`xexpm1`).  All functions take `xp` (numpy by default;
`jax.numpy` lets the same equations serve as a stand-in *implementation* in the "reference passes its own rules" experiment
and as a fast float64 reference in the thorough float32 sweep).
"""
from __future__ import annotations

import numpy as np


# ----------------------------------------------------------------------------- helpers
def xexpm1(x, xp=np):
    """x/(exp(x)-1) with the removable singularity at 0 filled by its limit (1) and a cancellation-free form
    near 0 (series, error x^4/720 < 1e-22 for |x| < 1e-5) and expm1 elsewhere."""
    x = xp.asarray(x)
    small = xp.abs(x) < 1e-5
    xs = xp.where(small, 1.0, x)
    return xp.where(small, 1.0 - x / 2.0 + x * x / 12.0, xs / xp.expm1(xs))


def _ab(a, b):
    """(alpha, beta) -> (x_inf, tau)."""
    s = a + b
    return a / s, 1.0 / s


# ----------------------------------------------------------------------------- rate functions (alpha, beta)
def hh_m(v, xp=np):
    return 0.1 * 10 * xexpm1(-(v + 40) / 10, xp), 4 * xp.exp(-(v + 65) / 18)


def hh_h(v, xp=np):
    return 0.07 * xp.exp(-(v + 65) / 20), 1 / (xp.exp(-(v + 35) / 10) + 1)


def hh_n(v, xp=np):
    return 0.01 * 10 * xexpm1(-(v + 55) / 10, xp), 0.125 * xp.exp(-(v + 65) / 80)


def na_m(v, vt, xp=np):
    return 0.32 * 4 * xexpm1(-(v - vt - 13) / 4, xp), 0.28 * 5 * xexpm1((v - vt - 40) / 5, xp)


def na_h(v, vt, xp=np):
    return 0.128 * xp.exp(-(v - vt - 17) / 18), 4 / (1 + xp.exp(-(v - vt - 40) / 5))


def k_n(v, vt, xp=np):
    return 0.032 * 5 * xexpm1(-(v - vt - 15) / 5, xp), 0.5 * xp.exp(-(v - vt - 10) / 40)


def cal_q(v, xp=np):
    return 0.055 * 3.8 * xexpm1((-27 - v) / 3.8, xp), 0.94 * xp.exp((-75 - v) / 17)


def cal_r(v, xp=np):
    return 0.000457 * xp.exp((-13 - v) / 50), 0.0065 / (xp.exp((-15 - v) / 28) + 1)


# ----------------------------------------------------------------------------- (x_inf, tau) forms
def km_p(v, taumax, xp=np):
    return 1 / (1 + xp.exp(-(v + 35) / 10)), taumax / (3.3 * xp.exp((v + 35) / 20) + xp.exp(-(v + 35) / 20))


def cat_u(v, vx, xp=np):
    # tau_u written with exp(-.) for large arguments would be a *different* formula; the published one is evaluated
    # as is (float64 does not overflow on [-200, 200]: the largest argument is (202+113.2)/5 = 63).
    return (
        1 / (1 + xp.exp((v + vx + 81) / 4)),
        (30.8 + (211.4 + xp.exp((v + vx + 113.2) / 5))) / (3.7 * (1 + xp.exp((v + vx + 84) / 3.2))),
    )


def cat_s(v, vx, xp=np):
    return 1 / (1 + xp.exp(-(v + vx + 57) / 6.2))


SYN_VTH = -35.0
SYN_DELTA = 10.0


def syn_s(v_pre, k_minus, xp=np):
    """(s_inf, tau_s); 1 - s_inf is evaluated as the complementary logistic (no cancellation)."""
    s_inf = 1 / (1 + xp.exp((SYN_VTH - v_pre) / SYN_DELTA))
    one_minus = 1 / (1 + xp.exp((v_pre - SYN_VTH) / SYN_DELTA))
    return s_inf, one_minus / k_minus


# ----------------------------------------------------------------------------- tables
# kind, parameters as (local name, shared (= not prefixed), default), gates, parameters the kinetics depend on.
MECHS = {
    "HH": {
        "kind": "channel",
        "params": [("gNa", False, 0.12), ("gK", False, 0.036), ("gLeak", False, 0.0003),
                   ("eNa", False, 50.0), ("eK", False, -77.0), ("eLeak", False, -54.3)],
        "gates": ["m", "h", "n"],
        "kin": [],
    },
    "Leak": {
        "kind": "channel",
        "params": [("gLeak", False, 1e-4), ("eLeak", False, -70.0)],
        "gates": [],
        "kin": [],
    },
    "Na": {
        "kind": "channel",
        "params": [("gNa", False, 0.05), ("eNa", True, 50.0), ("vt", True, -60.0)],
        "gates": ["m", "h"],
        "kin": ["vt"],
    },
    "K": {
        "kind": "channel",
        "params": [("gK", False, 0.005), ("eK", True, -90.0), ("vt", True, -60.0)],
        "gates": ["n"],
        "kin": ["vt"],
    },
    "Km": {
        "kind": "channel",
        "params": [("gKm", False, 4e-6), ("taumax", False, 4000.0), ("eK", True, -90.0)],
        "gates": ["p"],
        "kin": ["taumax"],
    },
    "CaL": {
        "kind": "channel",
        "params": [("gCaL", False, 1e-4), ("eCa", True, 120.0)],
        "gates": ["q", "r"],
        "kin": [],
    },
    "CaT": {
        "kind": "channel",
        "params": [("gCaT", False, 4e-5), ("vx", False, 2.0), ("eCa", True, 120.0)],
        "gates": ["u"],
        "kin": ["vx"],
    },
    "IonotropicSynapse": {
        "kind": "synapse",
        "params": [("gS", False, 1e-4), ("e_syn", False, 0.0), ("k_minus", False, 0.025)],
        "gates": ["s"],
        "kin": ["k_minus"],
    },
    "TestSynapse": {
        "kind": "synapse",
        "params": [("gC", False, 1e-4)],
        "gates": ["c"],
        "kin": [],
    },
    # only used by the renaming rules of C04 (no state, no published kinetics compared)
    "TanhRateSynapse": {
        "kind": "synapse",
        "params": [("gS", False, 1e-4), ("x_offset", False, -70.0), ("slope", False, 1.0)],
        "gates": [],
        "kin": [],
    },
}

CHANNELS = ["HH", "Na", "K", "Km", "CaL", "CaT", "Leak"]
SYNAPSES = ["IonotropicSynapse", "TestSynapse"]
C03_MECHS = CHANNELS + SYNAPSES

# dyadic parameter alphabets for the parameters kinetics depend on (every singular voltage is then a dyadic rational)
KIN_ALPHABET = {"vt": [-70.0, -60.0, -50.5], "taumax": [100.0, 4000.0], "vx": [0.0, 2.0], "k_minus": [1e-3, 0.025, 1.0]}


def defaults(mech):
    return {n: d for n, _, d in MECHS[mech]["params"]}


def psets(mech):
    """All kinetic parameter settings of a mechanism (list of dicts, local names)."""
    kin = MECHS[mech]["kin"]
    out = [{}]
    for k in kin:
        out = [dict(p, **{k: val}) for p in out for val in KIN_ALPHABET[k]]
    return out


def key_of(mech, prefix, local):
    for n, shared, _ in MECHS[mech]["params"]:
        if n == local:
            return n if shared else f"{prefix}_{n}"
    raise KeyError(local)


def param_keys(mech, prefix):
    return {n: (n if shared else f"{prefix}_{n}") for n, shared, _ in MECHS[mech]["params"]}


def state_keys(mech, prefix):
    return {g: f"{prefix}_{g}" for g in MECHS[mech]["gates"]}


# ----------------------------------------------------------------------------- uniform access
def inf_tau(mech, gate, v, p=None, xp=np):
    """Reference (x_inf, tau) of one gate at voltage v (presynaptic voltage for synapses)."""
    p = p or {}
    if mech == "HH":
        return _ab(*{"m": hh_m, "h": hh_h, "n": hh_n}[gate](v, xp))
    if mech == "Na":
        return _ab(*{"m": na_m, "h": na_h}[gate](v, p["vt"], xp))
    if mech == "K":
        return _ab(*k_n(v, p["vt"], xp))
    if mech == "Km":
        return km_p(v, p["taumax"], xp)
    if mech == "CaL":
        return _ab(*{"q": cal_q, "r": cal_r}[gate](v, xp))
    if mech == "CaT":
        return cat_u(v, p["vx"], xp)
    if mech == "IonotropicSynapse":
        return syn_s(v, p["k_minus"], xp)
    if mech == "TestSynapse":
        return syn_s(v, 1.0 / 40.0, xp)
    raise KeyError((mech, gate))


# which published form a gate function has: "ab" (alpha, beta) or "inf_tau"
GATE_FORM = {
    ("HH", "m"): "ab", ("HH", "h"): "ab", ("HH", "n"): "ab", ("Na", "m"): "ab", ("Na", "h"): "ab", ("K", "n"): "ab",
    ("CaL", "q"): "ab", ("CaL", "r"): "ab", ("Km", "p"): "inf_tau", ("CaT", "u"): "inf_tau",
}


def update(mech, gate, x, dt, v, p=None, xp=np):
    """Closed-form solution of dx/dt = (x_inf - x)/tau over dt at frozen voltage."""
    xi, tau = inf_tau(mech, gate, v, p, xp)
    return xi + (x - xi) * xp.exp(-dt / tau)


def current_terms(mech, states, v, p, xp=np):
    """List of the additive terms of the published current (channels: mA/cm2 with g in S/cm2 and v in mV;
    synapses: nA with g in uS; v = postsynaptic voltage).  `p` has local parameter names, `states` gate names."""
    if mech == "HH":
        return [p["gNa"] * states["m"] ** 3 * states["h"] * (v - p["eNa"]),
                p["gK"] * states["n"] ** 4 * (v - p["eK"]),
                p["gLeak"] * (v - p["eLeak"])]
    if mech == "Leak":
        return [p["gLeak"] * (v - p["eLeak"])]
    if mech == "Na":
        return [p["gNa"] * states["m"] ** 3 * states["h"] * (v - p["eNa"])]
    if mech == "K":
        return [p["gK"] * states["n"] ** 4 * (v - p["eK"])]
    if mech == "Km":
        return [p["gKm"] * states["p"] * (v - p["eK"])]
    if mech == "CaL":
        return [p["gCaL"] * states["q"] ** 2 * states["r"] * (v - p["eCa"])]
    if mech == "CaT":
        return [p["gCaT"] * cat_s(v, p["vx"], xp) ** 2 * states["u"] * (v - p["eCa"])]
    if mech == "IonotropicSynapse":
        return [p["gS"] * states["s"] * (v - p["e_syn"])]
    if mech == "TestSynapse":
        return [p["gC"] * states["c"] * (v - 0.0)]
    raise KeyError(mech)


# ----------------------------------------------------------------------------- special points (from the equations above)
def singular_voltages(mech, p=None):
    """gate -> voltages at which a published rate expression is 0/0."""
    p = p or {}
    if mech == "HH":
        return {"m": [-40.0], "n": [-55.0]}
    if mech == "Na":
        return {"m": [p["vt"] + 13.0, p["vt"] + 40.0]}
    if mech == "K":
        return {"n": [p["vt"] + 15.0]}
    if mech == "CaL":
        return {"q": [-27.0]}
    return {}


def exp_terms(mech, p=None):
    """gate -> [(name, v0, k)] for every exponential exp((v - v0)/k) in the published kinetics of that gate
    ("cur" = exponentials that only enter the current).  The jaxley implementation clips exponent arguments at 20;
    v0 + 20 k is where that starts."""
    p = p or {}
    if mech == "HH":
        return {"m": [("alpha", -40.0, -10.0), ("beta", -65.0, -18.0)],
                "h": [("alpha", -65.0, -20.0), ("beta", -35.0, -10.0)],
                "n": [("alpha", -55.0, -10.0), ("beta", -65.0, -80.0)]}
    if mech == "Na":
        vt = p["vt"]
        return {"m": [("alpha", vt + 13.0, -4.0), ("beta", vt + 40.0, 5.0)],
                "h": [("alpha", vt + 17.0, -18.0), ("beta", vt + 40.0, -5.0)]}
    if mech == "K":
        vt = p["vt"]
        return {"n": [("alpha", vt + 15.0, -5.0), ("beta", vt + 10.0, -40.0)]}
    if mech == "Km":
        return {"p": [("inf", -35.0, -10.0), ("tau_a", -35.0, 20.0), ("tau_b", -35.0, -20.0)]}
    if mech == "CaL":
        return {"q": [("alpha", -27.0, -3.8), ("beta", -75.0, -17.0)],
                "r": [("alpha", -13.0, -50.0), ("beta", -15.0, -28.0)]}
    if mech == "CaT":
        vx = p["vx"]
        return {"u": [("inf", -(vx + 81.0), 4.0), ("tau_num", -(vx + 113.2), 5.0), ("tau_den", -(vx + 84.0), 3.2)],
                "cur": [("s_inf", -(vx + 57.0), -6.2)]}
    if mech in ("IonotropicSynapse", "TestSynapse"):
        g = MECHS[mech]["gates"][0]
        return {g: [("inf", SYN_VTH, -SYN_DELTA)]}
    return {}


CLIP = 20.0


def clip_voltages(mech, p=None):
    """gate -> voltages where an exponent argument equals the clip value 20."""
    return {g: [v0 + CLIP * k for _, v0, k in terms] for g, terms in exp_terms(mech, p).items()}


def clipped_mask(mech, gate, v, p=None):
    """True where some exponent argument of the gate's published kinetics exceeds 20."""
    v = np.asarray(v, dtype=np.float64)
    m = np.zeros(v.shape, bool)
    for _, v0, k in exp_terms(mech, p).get(gate, []):
        m |= (v - v0) / k > CLIP
    return m
