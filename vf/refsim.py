"""Reference simulator of a whole model (dense numpy, float64), independent of jaxley's code.

A *model* is a plain dict:
  parents, ncomps                 forest (see vf.refphys)
  radius, length, axial_resistivity, capacitance, v      arrays over compartments
  channels: [ {"type": "HH"|"Na"|"K"|"Km"|"CaL"|"CaT"|"Leak", "name": prefix,
               "comps": [i,...], "params": {key: array(n) (NaN where absent)}, "states": {key: array(n)}} ]
  synapses: [ {"type": "IonotropicSynapse"|"TestSynapse"|"TanhRateSynapse", "name": prefix, "pre": i, "post": j,
               "params": {key: float}, "states": {key: float}} ]
  stimuli:  [ {"comp": i, "current": array(T)} ]          nA, sample k acts during step k+1
  clamps:   [ {"state": name, "index": i, "values": array(T)} ]   index = compartment, or synapse position in `synapses`

The scheme mirrors what jaxley documents/does and what DESIGN §5 lists as S1/S2 (these are *scheme*
choices, not index logic): gates advance first with the old voltage (exponential Euler); currents are
linearised around the old voltage with the new gates by a 1e-3 mV secant (for synapses pre and post
voltage are perturbed together); non-voltage clamps are written after the mechanism step, the voltage
clamp after the solve; then one implicit (or CN / explicit) voltage update of the dense cable system.
"""
from __future__ import annotations

import numpy as np

from vf import refkin as R
from vf import refphys

SECANT = 1e-3


# ------------------------------------------------------------------ mechanisms (published equations)
def _ab(alpha_beta):
    a, b = alpha_beta
    tau = 1.0 / (a + b)
    return a * tau, tau


def chan_gates(ctype, prefix, v, p):
    """-> {state_key: (x_inf, tau)} at voltages v (arrays restricted to the channel's compartments)."""
    if ctype == "HH":
        return {f"{prefix}_m": _ab(R.hh_m(v)), f"{prefix}_h": _ab(R.hh_h(v)), f"{prefix}_n": _ab(R.hh_n(v))}
    if ctype == "Na":
        return {f"{prefix}_m": _ab(R.na_m(v, p["vt"])), f"{prefix}_h": _ab(R.na_h(v, p["vt"]))}
    if ctype == "K":
        return {f"{prefix}_n": _ab(R.k_n(v, p["vt"]))}
    if ctype == "Km":
        return {f"{prefix}_p": R.km_p(v, p[f"{prefix}_taumax"])}
    if ctype == "CaL":
        return {f"{prefix}_q": _ab(R.cal_q(v)), f"{prefix}_r": _ab(R.cal_r(v))}
    if ctype == "CaT":
        return {f"{prefix}_u": R.cat_u(v, p[f"{prefix}_vx"])}
    if ctype == "Leak":
        return {}
    raise ValueError(ctype)


def chan_current(ctype, prefix, v, s, p):
    """Current density in mA/cm2 (conductances S/cm2, mV)."""
    if ctype == "HH":
        m, h, n = s[f"{prefix}_m"], s[f"{prefix}_h"], s[f"{prefix}_n"]
        return (
            p[f"{prefix}_gNa"] * m**3 * h * (v - p[f"{prefix}_eNa"])
            + p[f"{prefix}_gK"] * n**4 * (v - p[f"{prefix}_eK"])
            + p[f"{prefix}_gLeak"] * (v - p[f"{prefix}_eLeak"])
        )
    if ctype == "Na":
        return p[f"{prefix}_gNa"] * s[f"{prefix}_m"] ** 3 * s[f"{prefix}_h"] * (v - p["eNa"])
    if ctype == "K":
        return p[f"{prefix}_gK"] * s[f"{prefix}_n"] ** 4 * (v - p["eK"])
    if ctype == "Km":
        return p[f"{prefix}_gKm"] * s[f"{prefix}_p"] * (v - p["eK"])
    if ctype == "CaL":
        return p[f"{prefix}_gCaL"] * s[f"{prefix}_q"] ** 2 * s[f"{prefix}_r"] * (v - p["eCa"])
    if ctype == "CaT":
        sinf = R.cat_s(v, p[f"{prefix}_vx"])
        return p[f"{prefix}_gCaT"] * sinf**2 * s[f"{prefix}_u"] * (v - p["eCa"])
    if ctype == "Leak":
        return p[f"{prefix}_gLeak"] * (v - p[f"{prefix}_eLeak"])
    raise ValueError(ctype)


CURRENT_NAME = {"HH": "i_HH", "Na": "i_Na", "K": "i_K", "Km": "i_K", "CaL": "i_Ca", "CaT": "i_Ca"}


def current_name(ctype, prefix):
    return CURRENT_NAME.get(ctype, f"i_{prefix}")


def syn_gate(stype, prefix, v_pre, p):
    """-> {state_key: (x_inf, tau)} or {}."""
    if stype in ("IonotropicSynapse", "TestSynapse"):
        s_inf = 1.0 / (1.0 + np.exp((-35.0 - v_pre) / 10.0))
        k_minus = p[f"{prefix}_k_minus"] if stype == "IonotropicSynapse" else 1.0 / 40.0
        tau = (1.0 - s_inf) / k_minus
        key = f"{prefix}_s" if stype == "IonotropicSynapse" else f"{prefix}_c"
        return {key: (s_inf, tau)}
    return {}


def syn_current(stype, prefix, v_pre, v_post, s, p):
    """nA, outward from the post compartment (same sign convention as a channel current)."""
    if stype == "IonotropicSynapse":
        return p[f"{prefix}_gS"] * s[f"{prefix}_s"] * (v_post - p[f"{prefix}_e_syn"])
    if stype == "TestSynapse":
        return p[f"{prefix}_gC"] * s[f"{prefix}_c"] * (v_post - 0.0)
    if stype == "TanhRateSynapse":
        return -p[f"{prefix}_gS"] * np.tanh((v_pre - p[f"{prefix}_x_offset"]) * p[f"{prefix}_slope"])
    raise ValueError(stype)


def exp_euler(x, dt, xinf, tau):
    return xinf + (x - xinf) * np.exp(-dt / tau)


# ------------------------------------------------------------------ simulation
def simulate(model, dt, nsteps, scheme="bwd_euler"):
    """Returns dict: "v": (nsteps+1, n); every channel state key: (nsteps+1, n) (NaN where absent);
    every synapse state key per synapse: "syn_states": list over synapses of {key: (nsteps+1,)};
    currents: {"i_X": (nsteps+1, n)} in mA/cm2 (membrane) and "syn_currents": list of (nsteps+1,) nA.
    Column 0 = initial state (currents evaluated at the initial state)."""
    parents, ncomps = model["parents"], model["ncomps"]
    n = int(sum(ncomps))
    rad = np.asarray(model["radius"], float)
    L = np.asarray(model["length"], float)
    C, G, _ = refphys.assemble(parents, ncomps, rad, L, model["axial_resistivity"], model["capacitance"])
    area = refphys.areas_cm2(rad, L)
    v = np.asarray(model["v"], float).copy()
    chans = model.get("channels", [])
    syns = model.get("synapses", [])
    cstates = {}
    for ch in chans:
        for k, arr in ch["states"].items():
            a = np.asarray(arr, float).copy()
            if k in cstates:
                # several channels may share a state column only if they coincide; keep non-NaN union
                m = ~np.isnan(a)
                cstates[k][m] = a[m]
            else:
                cstates[k] = a
    sstates = [dict((k, float(x)) for k, x in sy["states"].items()) for sy in syns]
    stim = model.get("stimuli", [])
    clamps = model.get("clamps", [])

    def membrane(vv, states):
        """-> (cur_by_name {name: (n,)}, total outward nA at vv)."""
        cur = {}
        tot = np.zeros(n)
        for ch in chans:
            idx = np.asarray(ch["comps"], int)
            if len(idx) == 0:
                continue
            p = {k: np.asarray(a, float)[idx] for k, a in ch["params"].items()}
            s = {k: states[k][idx] for k in ch["states"]}
            dens = chan_current(ch["type"], ch["name"], vv[idx], s, p)
            nm = current_name(ch["type"], ch["name"])
            cur.setdefault(nm, np.zeros(n))
            cur[nm][idx] += dens
            tot[idx] += dens * area[idx] * 1e6
        return cur, tot

    def synaptic(vv, sst):
        cur = []
        tot = np.zeros(n)
        for sy, st in zip(syns, sst):
            i = syn_current(sy["type"], sy["name"], vv[sy["pre"]], vv[sy["post"]], st, sy["params"])
            cur.append(float(i))
        return cur

    def record(out, k, v, cstates, sstates, cur, scur):
        out["v"][k] = v
        for key, arr in cstates.items():
            out[key][k] = arr
        for nm, arr in cur.items():
            out[nm][k] = arr
        for j, st in enumerate(sstates):
            for key, x in st.items():
                out["syn_states"][j][key][k] = x
            out["syn_currents"][j][k] = scur[j]

    cur0, _ = membrane(v, cstates)
    out = {"v": np.zeros((nsteps + 1, n))}
    for key in cstates:
        out[key] = np.full((nsteps + 1, n), np.nan)
    for nm in cur0:
        out[nm] = np.zeros((nsteps + 1, n))
    out["syn_states"] = [{key: np.zeros(nsteps + 1) for key in st} for st in sstates]
    out["syn_currents"] = [np.zeros(nsteps + 1) for _ in syns]
    record(out, 0, v, cstates, sstates, cur0, synaptic(v, sstates))

    for k in range(nsteps):
        # 1. gates with the old voltage
        for ch in chans:
            idx = np.asarray(ch["comps"], int)
            if len(idx) == 0:
                continue
            p = {kk: np.asarray(a, float)[idx] for kk, a in ch["params"].items()}
            for key, (xinf, tau) in chan_gates(ch["type"], ch["name"], v[idx], p).items():
                cstates[key][idx] = exp_euler(cstates[key][idx], dt, xinf, tau)
        # 2. membrane currents linearised by a secant around the old voltage
        cur, I0 = membrane(v, cstates)
        _, I1 = membrane(v + SECANT, cstates)
        g_lin = (I1 - I0) / SECANT
        i_const = -(I0 - g_lin * v)
        # 3. synapses: states with the old presynaptic voltage, currents by joint secant
        scur = []
        for sy, st in zip(syns, sstates):
            for key, (xinf, tau) in syn_gate(sy["type"], sy["name"], v[sy["pre"]], sy["params"]).items():
                st[key] = float(exp_euler(st[key], dt, xinf, tau))
        for sy, st in zip(syns, sstates):
            a = syn_current(sy["type"], sy["name"], v[sy["pre"]], v[sy["post"]], st, sy["params"])
            b = syn_current(sy["type"], sy["name"], v[sy["pre"]] + SECANT, v[sy["post"]] + SECANT, st, sy["params"])
            slope = (b - a) / SECANT
            g_lin[sy["post"]] += slope
            i_const[sy["post"]] += -(a - slope * v[sy["post"]])
            scur.append(float(a))
        # 4. stimuli (sample k acts during step k+1)
        for s in stim:
            cu = np.asarray(s["current"], float)
            if k < len(cu):
                i_const[s["comp"]] += cu[k]
        # 5. non-voltage clamps after the mechanism step
        for c in clamps:
            if c["state"] == "v":
                continue
            val = float(np.asarray(c["values"], float)[k])
            if c["state"] in cstates:
                cstates[c["state"]][c["index"]] = val
            elif c["state"] in cur:
                cur[c["state"]][c["index"]] = val
            else:
                hit = False
                for j, st in enumerate(sstates):
                    if j == c["index"] and c["state"] in st:
                        st[c["state"]] = val
                        hit = True
                if not hit and c["state"].startswith("i_"):
                    scur[c["index"]] = val
        # 6. voltage update
        v = refphys.step(scheme, v, dt, C, G, n, g_lin, i_const)
        for c in clamps:
            if c["state"] == "v":
                v[c["index"]] = float(np.asarray(c["values"], float)[k])
        record(out, k + 1, v, cstates, sstates, cur, scur)
    return out


# ------------------------------------------------------------------ model from the displayed tables of a real module
BUILTIN_TYPES = ["HH", "Na", "K", "Km", "CaL", "CaT", "Leak"]


def model_from_module(module):
    """Read ONLY the displayed tables (.nodes, .edges, .externals/.external_inds, branch structure)."""
    nd = module.nodes
    n = len(nd)
    parents = [int(p) for p in np.asarray(module.comb_parents)]
    ncomps = [int(x) for x in nd.groupby("global_branch_index").size().sort_index().to_numpy()]
    model = {
        "parents": parents,
        "ncomps": ncomps,
        "radius": nd["radius"].to_numpy(float),
        "length": nd["length"].to_numpy(float),
        "axial_resistivity": nd["axial_resistivity"].to_numpy(float),
        "capacitance": nd["capacitance"].to_numpy(float),
        "v": nd["v"].to_numpy(float),
        "channels": [],
        "synapses": [],
        "stimuli": [],
        "clamps": [],
    }
    for ch in module.channels:
        ctype = type(ch).__name__
        name = ch._name
        comps = np.where(nd[name].to_numpy().astype(bool))[0].tolist()
        model["channels"].append(
            {
                "type": ctype,
                "name": name,
                "comps": comps,
                "params": {k: nd[k].to_numpy(float) for k in ch.channel_params},
                "states": {k: nd[k].to_numpy(float) for k in ch.channel_states},
            }
        )
    ed = module.edges
    syn_by_name = {s._name: s for s in module.synapses if s is not None}
    for _, row in ed.iterrows():
        s = syn_by_name[row["type"]]
        model["synapses"].append(
            {
                "type": type(s).__name__,
                "name": s._name,
                "pre": int(row["pre_global_comp_index"]),
                "post": int(row["post_global_comp_index"]),
                "params": {k: float(row[k]) for k in s.synapse_params},
                "states": {k: float(row[k]) for k in s.synapse_states},
            }
        )
    return model
