"""Choice oracle + stateless depth-first explorer for jaxley's connectivity builders.

The only nondeterminism of `fully_connect`, `sparse_connect` and `connectivity_matrix_connect`
is the random number generator:

    jaxley/connect.py        np.random.binomial(n, p)           number of sparse connections
                             np.random.choice(arr, size=k)      pre / post cells, post compartment
    pandas groupby .sample   pandas.core.sample.sample(...)     post compartments of fully_connect

`Oracle` replaces all three by *choice points*: every scalar draw becomes one choice
`(label, domain size n, default answer, given answer)`.  A vector draw `choice(arr, size=k)` is k
consecutive scalar choices over `arr`, i.e. the product domain arr^k.  An oracle replays a given
prefix of answers and answers every later choice point with the *default* of its policy
("first": index 0).  `explore` is the classic stateless DFS over the tree of answers: run once,
look at the choice points that were met beyond the prefix, and for each of them and each
non-default alternative recurse with the extended prefix.  Every leaf of the tree (complete answer
sequence) is executed exactly once.  `max_dev` bounds the number of non-default answers
(deviation bound); without it the enumeration is complete.

The interception is installed by `with oracle.installed():` and removed on exit, also when the
function under test raises.  `Oracle.forwarding(seed)` answers every draw the way numpy's real
generator would (used to show that the proxy sees *every* draw: same seed, same edges, and the
global generator state after the call equals the state of an un-intercepted call).
"""
from __future__ import annotations

import contextlib
import importlib
import sys
from dataclasses import dataclass
from typing import Callable, List, Optional, Sequence

import numpy as _np


class HarnessError(RuntimeError):
    """Nondeterminism that the oracle does not own, or a replay that does not reproduce."""


class PrefixOutOfDomain(HarnessError):
    """A prescribed answer does not exist at the choice point it was prescribed for."""


@dataclass
class Point:
    label: str  # which draw ("binomial", "choice", "pandas.sample") + position inside a vector draw
    n: int  # size of the domain: answers are 0..n-1
    default: int  # answer the policy gives when the prefix is exhausted
    answer: int  # answer that was given
    value: object = None  # the value handed to jaxley (domain[answer]) as a plain python object

    @property
    def deviates(self) -> bool:
        return self.answer != self.default


def _default_of(policy: str, k: int, n: int) -> int:
    """Default answer for the k-th choice point with n alternatives."""
    if n <= 0:
        raise HarnessError("empty choice domain")
    if policy == "first":
        return 0
    if policy == "last":
        return n - 1
    if policy == "cycle":
        return k % n
    raise ValueError(policy)


class Oracle:
    """Answers choice points: `prefix[i]` for the i-th point, the policy default afterwards."""

    def __init__(self, prefix: Sequence[int] = (), policy: str = "first", forward_seed: Optional[int] = None):
        self.prefix = [int(x) for x in prefix]
        self.policy = policy
        self.trace: List[Point] = []
        self.calls: List[dict] = []  # one entry per intercepted RNG *call* (vector draws are one call)
        self.forward_seed = forward_seed
        self._rs = None
        if forward_seed is not None:
            self._rs = _np.random.RandomState(forward_seed)

    # ------------------------------------------------------------------ construction helpers
    @classmethod
    def forwarding(cls, seed: int) -> "Oracle":
        """Oracle that answers like `np.random.seed(seed)` + the real global generator would."""
        return cls((), "first", forward_seed=seed)

    # ------------------------------------------------------------------ the choice primitive
    def choose(self, label: str, n: int, forced: Optional[int] = None) -> int:
        k = len(self.trace)
        n = int(n)
        default = _default_of(self.policy, k, n)
        if forced is not None:
            ans = int(forced)
        elif k < len(self.prefix):
            ans = self.prefix[k]
        else:
            ans = default
        if not (0 <= ans < n):
            raise PrefixOutOfDomain(f"answer {ans} outside domain of size {n} at choice point {k} ({label})")
        self.trace.append(Point(label, n, default, ans))
        return ans

    def answers(self) -> List[int]:
        return [p.answer for p in self.trace]

    def deviations(self) -> int:
        return sum(1 for p in self.trace if p.deviates)

    # ------------------------------------------------------------------ RNG look-alikes
    def binomial(self, n, p, size=None):
        if size is not None:
            raise HarnessError("binomial(size=...) is not modelled")
        n = int(n)
        p = float(p)
        if not (0.0 <= p <= 1.0) or n < 0:
            # the real generator raises ValueError here, so do we
            raise ValueError("p < 0, p > 1 or p is NaN" if n >= 0 else "n < 0")
        # support of Binomial(n, p): {0} for p == 0, {n} for p == 1, else {0..n}
        if p == 0.0:
            dom = [0]
        elif p == 1.0:
            dom = [n]
        else:
            dom = list(range(n + 1))
        forced = None
        if self._rs is not None:
            forced = dom.index(int(self._rs.binomial(n, p)))
        i = self.choose(f"binomial({n},{p:g})", len(dom), forced)
        self.trace[-1].value = dom[i]
        self.calls.append({"fn": "binomial", "n": n, "p": p, "value": dom[i], "points": [len(self.trace) - 1]})
        return int(dom[i])

    def choice(self, a, size=None, replace=True, p=None):
        if p is not None:
            raise HarnessError("choice(p=...) is not modelled")
        arr = _np.arange(a) if _np.ndim(a) == 0 else _np.asarray(a)
        if arr.ndim != 1:
            raise ValueError("a must be 1-dimensional")
        scalar = size is None
        if scalar:
            shape = ()
        elif _np.ndim(size) == 0:
            shape = (int(size),)
        else:
            shape = tuple(int(s) for s in size)
        k = int(_np.prod(shape)) if shape else 1
        if len(arr) == 0 and k > 0:
            raise ValueError("a cannot be empty unless no samples are taken")
        if not replace and k > len(arr):
            raise ValueError("Cannot take a larger sample than population when 'replace=False'")
        forced_idx = None
        if self._rs is not None:
            # the real generator draws positions; drawing from arange(len) consumes the same stream
            forced_idx = _np.atleast_1d(self._rs.choice(len(arr), size=None if scalar else shape, replace=replace)).ravel()
        idx, pts = [], []
        remaining = list(range(len(arr)))
        for j in range(k):
            if replace:
                f = None if forced_idx is None else int(forced_idx[j])
                i = self.choose(f"choice[{j}/{k}]", len(arr), f)
                pos = i
            else:
                f = None if forced_idx is None else remaining.index(int(forced_idx[j]))
                i = self.choose(f"choice_norepl[{j}/{k}]", len(remaining), f)
                pos = remaining.pop(i)
            self.trace[-1].value = arr[pos].item() if hasattr(arr[pos], "item") else arr[pos]
            pts.append(len(self.trace) - 1)
            idx.append(pos)
        self.calls.append(
            {"fn": "choice", "domain": arr.tolist(), "size": None if scalar else list(shape), "positions": list(idx), "points": pts}
        )
        out = arr[_np.asarray(idx, dtype=_np.intp)]
        if scalar:
            return out[0]
        return out.reshape(shape)

    def pandas_sample(self, obj_len, size, replace, weights, random_state):
        if weights is not None:
            raise HarnessError("pandas sample with weights is not modelled")
        obj_len, size = int(obj_len), int(size)
        if obj_len == 0 and size > 0:
            raise ValueError("a must be greater than 0 unless no samples are taken")
        if not replace and size > obj_len:
            raise ValueError("Cannot take a larger sample than population when 'replace=False'")
        forced_idx = None
        if self._rs is not None:
            forced_idx = _np.atleast_1d(self._rs.choice(obj_len, size=size, replace=replace))
        idx, pts = [], []
        remaining = list(range(obj_len))
        for j in range(size):
            if replace:
                f = None if forced_idx is None else int(forced_idx[j])
                pos = self.choose(f"pandas.sample[{j}/{size}]", obj_len, f)
            else:
                f = None if forced_idx is None else remaining.index(int(forced_idx[j]))
                i = self.choose(f"pandas.sample_norepl[{j}/{size}]", len(remaining), f)
                pos = remaining.pop(i)
            self.trace[-1].value = int(pos)
            pts.append(len(self.trace) - 1)
            idx.append(pos)
        self.calls.append({"fn": "pandas.sample", "obj_len": obj_len, "size": size, "positions": list(idx), "points": pts})
        return _np.asarray(idx, dtype=_np.intp)

    # ------------------------------------------------------------------ interception
    @contextlib.contextmanager
    def installed(self):
        """Install the interception (jaxley.connect.np -> proxy, pandas.core.sample.sample -> oracle)."""
        jc = sys.modules.get("jaxley.connect")
        if jc is None or not hasattr(jc, "sample_comp"):
            jc = importlib.import_module("jaxley.connect")
        import pandas.core.sample as pcs
        import pandas.core.groupby.groupby as pgg

        if isinstance(jc.np, _NumpyProxy) or getattr(pcs.sample, "_vf_oracle", False):
            raise HarnessError("a choice oracle is already installed")
        if getattr(pgg, "sample", None) is not pcs:
            raise HarnessError("pandas groupby no longer calls pandas.core.sample.sample through the module")
        real_np, real_sample = jc.np, pcs.sample

        def _sample(obj_len, size, replace, weights, random_state):
            return self.pandas_sample(obj_len, size, replace, weights, random_state)

        _sample._vf_oracle = True
        jc.np = _NumpyProxy(real_np, self)
        pcs.sample = _sample
        try:
            yield self
        finally:
            jc.np = real_np
            pcs.sample = real_sample


def installed_anywhere() -> bool:
    """True if an interception is still in place (must be False outside `with oracle.installed()`)."""
    jc = sys.modules.get("jaxley.connect")
    import pandas.core.sample as pcs

    return (jc is not None and isinstance(getattr(jc, "np", None), _NumpyProxy)) or getattr(pcs.sample, "_vf_oracle", False)


class _RandomProxy:
    """Stands in for `numpy.random`: only the draws jaxley.connect is known to make are answered;
    anything else is unowned nondeterminism and stops the run."""

    def __init__(self, oracle: Oracle):
        self._oracle = oracle

    def binomial(self, *a, **k):
        return self._oracle.binomial(*a, **k)

    def choice(self, *a, **k):
        return self._oracle.choice(*a, **k)

    def __getattr__(self, name):
        raise HarnessError(f"jaxley.connect used np.random.{name}, which the choice oracle does not own")


class _NumpyProxy:
    """Forwards every attribute to the real numpy except `.random`."""

    def __init__(self, real, oracle: Oracle):
        object.__setattr__(self, "_real", real)
        object.__setattr__(self, "random", _RandomProxy(oracle))

    def __getattr__(self, name):
        return getattr(object.__getattribute__(self, "_real"), name)

    def __setattr__(self, name, value):
        raise HarnessError("assignment on the numpy proxy")


# ---------------------------------------------------------------------------------- explorer
@dataclass
class Run:
    prefix: List[int]
    trace: List[Point]
    result: object


def explore(
    run: Callable[[List[int]], tuple],
    root: Sequence[int] = (),
    max_dev: Optional[int] = None,
    frozen: int = 0,
    max_runs: Optional[int] = None,
):
    """Stateless DFS over the tree of oracle answers.

    run(prefix) -> (trace, result): executes the real function once with an oracle that replays
    `prefix` and answers by default afterwards; `trace` is the list of Points met.

    root     answers that are fixed for this exploration (the subtree below them is explored);
    frozen   the first `frozen` choice points are not varied and not counted as deviations
             (the caller enumerates them itself, e.g. the binomial answer of sparse_connect);
    max_dev  deviation bound: at most that many non-default answers beyond `frozen`
             (None = complete enumeration of the subtree);
    max_runs safety cap; exceeding it raises (never truncates silently).

    Yields Run objects, one per leaf, each leaf exactly once.
    """
    root = [int(x) for x in root]
    frozen = max(frozen, 0)
    stack = [(list(root), None)]
    nruns = 0
    while stack:
        prefix, expect = stack.pop()
        trace, result = run(list(prefix))
        nruns += 1
        if max_runs is not None and nruns > max_runs:
            raise HarnessError(f"exploration exceeded max_runs={max_runs}")
        got = [p.answer for p in trace[: len(prefix)]]
        if got != prefix[: len(trace)]:
            raise HarnessError(f"replay diverged: prefix {prefix} but answers {got}")
        if len(trace) < len(prefix) and len(prefix) > len(root):
            # a prefix produced by the explorer must be consumed completely: the choice point
            # that was varied existed in the parent run, so it must exist again
            raise HarnessError(f"replay met {len(trace)} choice points, prefix has {len(prefix)} (nondeterminism outside the oracle)")
        if expect is not None and (trace[len(prefix) - 1].label, trace[len(prefix) - 1].n) != expect:
            # same answers so far must lead to the same choice point (label and domain) as in the parent run
            raise HarnessError(f"choice point {len(prefix) - 1} changed between runs with equal history: {expect} vs "
                               f"{(trace[len(prefix) - 1].label, trace[len(prefix) - 1].n)}")
        yield Run(prefix, trace, result)
        start = max(len(prefix), len(root), frozen)
        devs_before = sum(1 for p in trace[frozen:start] if p.deviates)
        # later points first on the stack -> visiting order is lexicographic; irrelevant for the set
        for i in range(len(trace) - 1, start - 1, -1):
            # answers between `start` and i are defaults, so deviations so far = devs_before
            if max_dev is not None and devs_before + 1 > max_dev:
                break
            base = [p.answer for p in trace[:i]]
            for alt in range(trace[i].n - 1, -1, -1):
                if alt != trace[i].answer:
                    stack.append((base + [alt], (trace[i].label, trace[i].n)))
