"""Choice oracle + stateless depth-first explorer for jaxley's connectivity builders.

The only nondeterminism of `fully_connect`, `sparse_connect` and `connectivity_matrix_connect`
is the random number generator:

    jaxley/connect.py        np.random.binomial(n, p)           number of sparse connections
                             np.random.choice(arr, size=k)      pre / post cells, post compartment
    pandas groupby .sample   pandas.core.sample.sample(...)     post compartments of fully_connect

`Oracle` replaces all three by *choice points*: every scalar draw becomes one choice
`(label, domain size n, default answer, given answer)`.  A vector draw `choice(arr, size=k)` is k
consecutive scalar choices over `arr`, i.e. the product domain arr^k.  An oracle replays a given
prefix of answers and answers every later choice point with the *default* of its policy
("first": index 0).  `explore` is the classic stateless DFS over the tree of answers: run once,
look at the choice points that were met beyond the prefix, and for each of them and each
non-default alternative recurse with the extended prefix.  Every leaf of the tree (complete answer
sequence) is executed exactly once.  `max_dev` bounds the number of non-default answers
(deviation bound); without it the enumeration is complete.

Besides the three draws jaxley makes today the oracle owns the draws a *different but legitimate*
implementation could make, so that such an implementation is still explored and judged on its
outcomes: rand / random / random_sample / uniform (each scalar is a choice over the quantile grid
QUANTILES, which contains 0.0 and the largest double below 1.0), randint / integers (all values of
a range of at most 16, otherwise both ends, their neighbours and the middle), permutation / shuffle
(all permutations of up to 4 elements, otherwise the identity and every single transposition), and
`default_rng(...)` generators with the same methods.  Anything else on `np.random` is refused.

The interception is installed by `with oracle.installed():` and removed on exit, also when the
function under test raises.  `Oracle.forwarding(seed)` answers every draw the way numpy's real
generator would (used to show that the proxy sees *every* draw: same seed, same edges, and the
global generator state after the call equals the state of an un-intercepted call).
"""
from __future__ import annotations

import contextlib
import importlib
import itertools
import sys
from dataclasses import dataclass
from typing import Callable, List, Optional, Sequence

import numpy as _np


class HarnessError(RuntimeError):
    """Nondeterminism that the oracle does not own, or a replay that does not reproduce."""


class PrefixOutOfDomain(HarnessError):
    """A prescribed answer does not exist at the choice point it was prescribed for."""


class BudgetExceeded(HarnessError):
    """explore() needed more runs than max_runs allows (nothing is truncated silently)."""


# quantile grid of a continuous draw on [0, 1): both ends of the interval are in it
QUANTILES = (0.0, 0.25, 0.5, 0.75, 1.0 - 2.0**-53)
MAX_FULL_RANGE = 16  # integer ranges up to this size are enumerated completely
MAX_FULL_PERM = 4  # permutations of up to this many elements are enumerated completely


def _shape_of(size):
    """size argument -> (shape or None for a scalar draw, number of scalars)."""
    if size is None:
        return None, 1
    shape = (int(size),) if _np.ndim(size) == 0 else tuple(int(x) for x in size)
    return shape, int(_np.prod(shape)) if shape else 1


def _range_offsets(n):
    return list(range(n)) if n <= MAX_FULL_RANGE else sorted({0, 1, n // 2, n - 2, n - 1})


def _perm_domain(n):
    if n <= MAX_FULL_PERM:
        return list(itertools.permutations(range(n)))  # identity first
    out = [tuple(range(n))]
    for i in range(n):
        for j in range(i + 1, n):
            q = list(range(n))
            q[i], q[j] = q[j], q[i]
            out.append(tuple(q))
    return out


@dataclass
class Point:
    label: str  # which draw ("binomial", "choice", "pandas.sample") + position inside a vector draw
    n: int  # size of the domain: answers are 0..n-1
    default: int  # answer the policy gives when the prefix is exhausted
    answer: int  # answer that was given
    value: object = None  # the value handed to jaxley (domain[answer]) as a plain python object

    @property
    def deviates(self) -> bool:
        return self.answer != self.default


def _default_of(policy: str, k: int, n: int) -> int:
    """Default answer for the k-th choice point with n alternatives."""
    if n <= 0:
        raise HarnessError("empty choice domain")
    if policy == "first":
        return 0
    if policy == "last":
        return n - 1
    if policy == "cycle":
        return k % n
    raise ValueError(policy)


class Oracle:
    """Answers choice points: `prefix[i]` for the i-th point, the policy default afterwards."""

    def __init__(self, prefix: Sequence[int] = (), policy: str = "first", forward_seed: Optional[int] = None):
        self.prefix = [int(x) for x in prefix]
        self.policy = policy
        self.trace: List[Point] = []
        self.calls: List[dict] = []  # one entry per intercepted RNG *call* (vector draws are one call)
        self.forward_seed = forward_seed
        self._rs = None
        if forward_seed is not None:
            self._rs = _np.random.RandomState(forward_seed)

    # ------------------------------------------------------------------ construction helpers
    @classmethod
    def forwarding(cls, seed: int) -> "Oracle":
        """Oracle that answers like `np.random.seed(seed)` + the real global generator would."""
        return cls((), "first", forward_seed=seed)

    # ------------------------------------------------------------------ the choice primitive
    def choose(self, label: str, n: int, forced: Optional[int] = None) -> int:
        k = len(self.trace)
        n = int(n)
        default = _default_of(self.policy, k, n)
        if forced is not None:
            ans = int(forced)
        elif k < len(self.prefix):
            ans = self.prefix[k]
        else:
            ans = default
        if not (0 <= ans < n):
            raise PrefixOutOfDomain(f"answer {ans} outside domain of size {n} at choice point {k} ({label})")
        self.trace.append(Point(label, n, default, ans))
        return ans

    def answers(self) -> List[int]:
        return [p.answer for p in self.trace]

    def deviations(self) -> int:
        return sum(1 for p in self.trace if p.deviates)

    # ------------------------------------------------------------------ RNG look-alikes
    def _emit(self, fn, label, k, n, value_of, real=None, index_of=None, extra=None):
        """k scalar choice points with n alternatives each. value_of(i) is the value of answer i; in forwarding
        mode real[j] is handed out and index_of(real[j]) is recorded as the answer."""
        vals, pts, ans = [], [], []
        for j in range(k):
            if real is not None:
                v = real[j]
                i = self.choose(f"{label}[{j}/{k}]", n, forced=index_of(v))
            else:
                i = self.choose(f"{label}[{j}/{k}]", n)
                v = value_of(i)
            self.trace[-1].value = v.item() if hasattr(v, "item") else v
            vals.append(v)
            pts.append(len(self.trace) - 1)
            ans.append(i)
        call = {"fn": fn, "n": n, "answers": ans, "points": pts}
        call.update(extra or {})
        self.calls.append(call)
        return vals

    def random_sample(self, size=None, _src=None):
        """Uniform draws on [0, 1): every scalar is a choice over QUANTILES."""
        shape, k = _shape_of(size)
        src = _src if _src is not None else (self._rs.random_sample if self._rs is not None else None)
        real = None if src is None else _np.asarray(src(size), dtype=float).reshape(-1)
        nq = len(QUANTILES)
        vals = self._emit("random_sample", "uniform01", k, nq, lambda i: QUANTILES[i], real, lambda u: min(int(u * nq), nq - 1))
        arr = _np.asarray(vals, dtype=float)
        return float(arr[0]) if shape is None else arr.reshape(shape)

    def rand(self, *dims, _src=None):
        return self.random_sample(tuple(dims) if dims else None, _src=_src)

    def uniform(self, low=0.0, high=1.0, size=None, _src=None):
        if _np.ndim(low) or _np.ndim(high):
            raise HarnessError("uniform with array bounds is not modelled")
        # numpy computes low + (high - low) * next_double, i.e. the same stream as random_sample
        return low + (high - low) * self.random_sample(size, _src=_src)

    def randint(self, low, high=None, size=None, dtype=int, _src=None):
        if _np.ndim(low) or _np.ndim(high):
            raise HarnessError("randint with array bounds is not modelled")
        lo, hi = (0, int(low)) if high is None else (int(low), int(high))
        if hi <= lo:
            raise ValueError("low >= high")
        offs = _range_offsets(hi - lo)
        shape, k = _shape_of(size)
        src = _src if _src is not None else (self._rs.randint if self._rs is not None else None)
        real = None if src is None else _np.asarray(src(low, high, size, dtype)).reshape(-1)

        def index_of(v):
            return min(range(len(offs)), key=lambda i: abs(offs[i] - (int(v) - lo)))

        vals = self._emit("randint", f"randint({lo},{hi})", k, len(offs), lambda i: lo + offs[i], real, index_of, {"lo": lo, "hi": hi})
        if shape is None:
            return int(vals[0]) if dtype is int else _np.dtype(dtype).type(vals[0])
        return _np.asarray([int(v) for v in vals], dtype=dtype).reshape(shape)

    def _perm(self, fn, n, _src=None):
        dom = _perm_domain(n)
        src = _src if _src is not None else (self._rs.permutation if self._rs is not None else None)
        real = None if src is None else [tuple(int(i) for i in src(n))]  # the swaps only depend on n
        vals = self._emit(fn, f"{fn}({n})", 1, len(dom), lambda i: dom[i], real, lambda q: dom.index(q) if q in dom else 0)
        self.trace[-1].value = list(vals[0])
        return list(vals[0])

    def permutation(self, x, _src=None):
        if _np.ndim(x) == 0:
            return _np.asarray(self._perm("permutation", int(x), _src), dtype=_np.int64)
        arr = _np.asarray(x)
        return arr[_np.asarray(self._perm("permutation", len(arr), _src), dtype=_np.intp)]

    def shuffle(self, x, _src=None):
        q = self._perm("shuffle", len(x), _src)
        if isinstance(x, _np.ndarray):
            x[...] = x[_np.asarray(q, dtype=_np.intp)]
        else:
            x[:] = [x[i] for i in q]

    def binomial(self, n, p, size=None, _rs=None):
        _rs = _rs if _rs is not None else self._rs
        if size is not None:
            raise HarnessError("binomial(size=...) is not modelled")
        n = int(n)
        p = float(p)
        if not (0.0 <= p <= 1.0) or n < 0:
            # the real generator raises ValueError here, so do we
            raise ValueError("p < 0, p > 1 or p is NaN" if n >= 0 else "n < 0")
        # support of Binomial(n, p): {0} for p == 0, {n} for p == 1, else {0..n}
        if p == 0.0:
            dom = [0]
        elif p == 1.0:
            dom = [n]
        else:
            dom = list(range(n + 1))
        forced = None
        if _rs is not None:
            forced = dom.index(int(_rs.binomial(n, p)))
        i = self.choose(f"binomial({n},{p:g})", len(dom), forced)
        self.trace[-1].value = dom[i]
        self.calls.append({"fn": "binomial", "n": n, "p": p, "value": dom[i], "points": [len(self.trace) - 1]})
        return int(dom[i])

    def choice(self, a, size=None, replace=True, p=None, _rs=None):
        _rs = _rs if _rs is not None else self._rs
        if p is not None:
            raise HarnessError("choice(p=...) is not modelled")
        arr = _np.arange(a) if _np.ndim(a) == 0 else _np.asarray(a)
        if arr.ndim != 1:
            raise ValueError("a must be 1-dimensional")
        scalar = size is None
        if scalar:
            shape = ()
        elif _np.ndim(size) == 0:
            shape = (int(size),)
        else:
            shape = tuple(int(s) for s in size)
        k = int(_np.prod(shape)) if shape else 1
        if len(arr) == 0 and k > 0:
            raise ValueError("a cannot be empty unless no samples are taken")
        if not replace and k > len(arr):
            raise ValueError("Cannot take a larger sample than population when 'replace=False'")
        forced_idx = None
        if _rs is not None:
            # the real generator draws positions; drawing from arange(len) consumes the same stream
            forced_idx = _np.atleast_1d(_rs.choice(len(arr), size=None if scalar else shape, replace=replace)).ravel()
        idx, pts = [], []
        remaining = list(range(len(arr)))
        for j in range(k):
            if replace:
                f = None if forced_idx is None else int(forced_idx[j])
                i = self.choose(f"choice[{j}/{k}]", len(arr), f)
                pos = i
            else:
                f = None if forced_idx is None else remaining.index(int(forced_idx[j]))
                i = self.choose(f"choice_norepl[{j}/{k}]", len(remaining), f)
                pos = remaining.pop(i)
            self.trace[-1].value = arr[pos].item() if hasattr(arr[pos], "item") else arr[pos]
            pts.append(len(self.trace) - 1)
            idx.append(pos)
        self.calls.append(
            {"fn": "choice", "domain": arr.tolist(), "size": None if scalar else list(shape), "positions": list(idx), "points": pts}
        )
        out = arr[_np.asarray(idx, dtype=_np.intp)]
        if scalar:
            return int(out[0]) if _np.ndim(a) == 0 else out[0]  # numpy returns a python int for choice(n)
        return out.reshape(shape)

    def pandas_sample(self, obj_len, size, replace, weights, random_state):
        if weights is not None:
            raise HarnessError("pandas sample with weights is not modelled")
        obj_len, size = int(obj_len), int(size)
        if obj_len == 0 and size > 0:
            raise ValueError("a must be greater than 0 unless no samples are taken")
        if not replace and size > obj_len:
            raise ValueError("Cannot take a larger sample than population when 'replace=False'")
        forced_idx = None
        if self._rs is not None:
            forced_idx = _np.atleast_1d(self._rs.choice(obj_len, size=size, replace=replace))
        idx, pts = [], []
        remaining = list(range(obj_len))
        for j in range(size):
            if replace:
                f = None if forced_idx is None else int(forced_idx[j])
                pos = self.choose(f"pandas.sample[{j}/{size}]", obj_len, f)
            else:
                f = None if forced_idx is None else remaining.index(int(forced_idx[j]))
                i = self.choose(f"pandas.sample_norepl[{j}/{size}]", len(remaining), f)
                pos = remaining.pop(i)
            self.trace[-1].value = int(pos)
            pts.append(len(self.trace) - 1)
            idx.append(pos)
        self.calls.append({"fn": "pandas.sample", "obj_len": obj_len, "size": size, "positions": list(idx), "points": pts})
        return _np.asarray(idx, dtype=_np.intp)

    # ------------------------------------------------------------------ interception
    @contextlib.contextmanager
    def installed(self):
        """Install the interception (jaxley.connect.np -> proxy, pandas.core.sample.sample -> oracle)."""
        jc = sys.modules.get("jaxley.connect")
        if jc is None or not hasattr(jc, "sample_comp"):
            jc = importlib.import_module("jaxley.connect")
        import pandas.core.sample as pcs
        import pandas.core.groupby.groupby as pgg

        if isinstance(jc.np, _NumpyProxy) or getattr(pcs.sample, "_vf_oracle", False):
            raise HarnessError("a choice oracle is already installed")
        if getattr(pgg, "sample", None) is not pcs:
            raise HarnessError("pandas groupby no longer calls pandas.core.sample.sample through the module")
        real_np, real_sample = jc.np, pcs.sample

        def _sample(obj_len, size, replace, weights, random_state):
            return self.pandas_sample(obj_len, size, replace, weights, random_state)

        _sample._vf_oracle = True
        jc.np = _NumpyProxy(real_np, self)
        pcs.sample = _sample
        try:
            yield self
        finally:
            jc.np = real_np
            pcs.sample = real_sample


def installed_anywhere() -> bool:
    """True if an interception is still in place (must be False outside `with oracle.installed()`)."""
    jc = sys.modules.get("jaxley.connect")
    import pandas.core.sample as pcs

    return (jc is not None and isinstance(getattr(jc, "np", None), _NumpyProxy)) or getattr(pcs.sample, "_vf_oracle", False)


_OWNED = ("binomial", "choice", "random_sample", "random", "rand", "uniform", "randint", "permutation", "shuffle")


class _RandomProxy:
    """Stands in for `numpy.random`: the draws listed in _OWNED (and default_rng generators) are answered by
    the oracle; anything else is nondeterminism the oracle does not own and stops the run."""

    def __init__(self, oracle: Oracle):
        self._oracle = oracle

    def binomial(self, *a, **k):
        return self._oracle.binomial(*a, **k)

    def choice(self, *a, **k):
        return self._oracle.choice(*a, **k)

    def random_sample(self, size=None):
        return self._oracle.random_sample(size)

    random = random_sample
    ranf = random_sample
    sample = random_sample

    def rand(self, *dims):
        return self._oracle.rand(*dims)

    def uniform(self, low=0.0, high=1.0, size=None):
        return self._oracle.uniform(low, high, size)

    def randint(self, low, high=None, size=None, dtype=int):
        return self._oracle.randint(low, high, size, dtype)

    def permutation(self, x):
        return self._oracle.permutation(x)

    def shuffle(self, x):
        return self._oracle.shuffle(x)

    def default_rng(self, seed=None):
        return _GeneratorProxy(self._oracle, seed)

    def __getattr__(self, name):
        raise HarnessError(f"jaxley.connect used np.random.{name}, which the choice oracle does not own")


class _GeneratorProxy:
    """Stands in for a `numpy.random.Generator` made by default_rng: same choice points as the module functions.
    In forwarding mode the draws come from a real generator with the same seed (an unseeded one cannot be forwarded)."""

    def __init__(self, oracle: Oracle, seed):
        self._oracle = oracle
        self._real = None
        if oracle._rs is not None:
            if seed is None:
                raise HarnessError("an unseeded default_rng() cannot be forwarded (no reproducible real stream)")
            self._real = _np.random.default_rng(seed)

    def random(self, size=None):
        return self._oracle.random_sample(size, _src=None if self._real is None else self._real.random)

    def uniform(self, low=0.0, high=1.0, size=None):
        return self._oracle.uniform(low, high, size, _src=None if self._real is None else self._real.random)

    def integers(self, low, high=None, size=None, dtype=_np.int64, endpoint=False):
        if endpoint:
            low, high = (0, low + 1) if high is None else (low, high + 1)
        src = None if self._real is None else (lambda lo, hi, sz, dt: self._real.integers(lo, hi, sz, dtype=dt))
        return self._oracle.randint(low, high, size, dtype, _src=src)

    def choice(self, a, size=None, replace=True, p=None, axis=0, shuffle=True):
        if axis != 0:
            raise HarnessError("Generator.choice(axis=...) is not modelled")
        return self._oracle.choice(a, size, replace, p, _rs=self._real)

    def binomial(self, n, p, size=None):
        return self._oracle.binomial(n, p, size, _rs=self._real)

    def permutation(self, x, axis=0):
        return self._oracle.permutation(x, _src=None if self._real is None else self._real.permutation)

    def shuffle(self, x, axis=0):
        return self._oracle.shuffle(x, _src=None if self._real is None else self._real.permutation)

    def __getattr__(self, name):
        raise HarnessError(f"jaxley.connect used Generator.{name}, which the choice oracle does not own")


class _NumpyProxy:
    """Forwards every attribute to the real numpy except `.random`."""

    def __init__(self, real, oracle: Oracle):
        object.__setattr__(self, "_real", real)
        object.__setattr__(self, "random", _RandomProxy(oracle))

    def __getattr__(self, name):
        return getattr(object.__getattribute__(self, "_real"), name)

    def __setattr__(self, name, value):
        raise HarnessError("assignment on the numpy proxy")


# ---------------------------------------------------------------------------------- explorer
@dataclass
class Run:
    prefix: List[int]
    trace: List[Point]
    result: object


def explore(
    run: Callable[[List[int]], tuple],
    root: Sequence[int] = (),
    max_dev: Optional[int] = None,
    frozen: int = 0,
    max_runs: Optional[int] = None,
):
    """Stateless DFS over the tree of oracle answers.

    run(prefix) -> (trace, result): executes the real function once with an oracle that replays
    `prefix` and answers by default afterwards; `trace` is the list of Points met.

    root     answers that are fixed for this exploration (the subtree below them is explored);
    frozen   the first `frozen` choice points are not varied and not counted as deviations
             (the caller enumerates them itself, e.g. the binomial answer of sparse_connect);
    max_dev  deviation bound: at most that many non-default answers beyond `frozen`
             (None = complete enumeration of the subtree);
    max_runs budget; needing more runs raises BudgetExceeded (never truncates silently).

    Yields Run objects, one per leaf, each leaf exactly once.
    """
    root = [int(x) for x in root]
    frozen = max(frozen, 0)
    stack = [(list(root), None)]
    nruns = 0
    while stack:
        prefix, expect = stack.pop()
        if max_runs is not None and nruns >= max_runs:
            raise BudgetExceeded(f"exploration needs more than max_runs={max_runs} runs")
        trace, result = run(list(prefix))
        nruns += 1
        got = [p.answer for p in trace[: len(prefix)]]
        if got != prefix[: len(trace)]:
            raise HarnessError(f"replay diverged: prefix {prefix} but answers {got}")
        if len(trace) < len(prefix) and len(prefix) > len(root):
            # a prefix produced by the explorer must be consumed completely: the choice point
            # that was varied existed in the parent run, so it must exist again
            raise HarnessError(f"replay met {len(trace)} choice points, prefix has {len(prefix)} (nondeterminism outside the oracle)")
        if expect is not None and (trace[len(prefix) - 1].label, trace[len(prefix) - 1].n) != expect:
            # same answers so far must lead to the same choice point (label and domain) as in the parent run
            raise HarnessError(f"choice point {len(prefix) - 1} changed between runs with equal history: {expect} vs "
                               f"{(trace[len(prefix) - 1].label, trace[len(prefix) - 1].n)}")
        yield Run(prefix, trace, result)
        start = max(len(prefix), len(root), frozen)
        devs_before = sum(1 for p in trace[frozen:start] if p.deviates)
        # later points first on the stack -> visiting order is lexicographic; irrelevant for the set
        for i in range(len(trace) - 1, start - 1, -1):
            # answers between `start` and i are defaults, so deviations so far = devs_before
            if max_dev is not None and devs_before + 1 > max_dev:
                break
            base = [p.answer for p in trace[:i]]
            for alt in range(trace[i].n - 1, -1, -1):
                if alt != trace[i].answer:
                    stack.append((base + [alt], (trace[i].label, trace[i].n)))


# ---------------------------------------------------------------------------------- self test
def _draw_script(R, use_generator):
    """One call of every owned draw, written against the numpy.random interface."""
    out = []
    if use_generator:
        g = R.default_rng(7)
        out += [g.random(), g.random(3), g.uniform(-2.0, 3.0, 2), g.integers(5), g.integers(2, 40, size=3),
                g.integers(1, 3, endpoint=True), g.choice([4, 5, 6], size=2), g.binomial(6, 0.5), g.permutation(3),
                g.permutation(_np.array([9, 8, 7, 6, 5, 4])), g.choice(5)]
        x = _np.arange(5)
        g.shuffle(x)
        out.append(x)
        return out
    out += [R.binomial(6, 0.5), R.choice([3, 1, 2], size=2), R.choice(4), R.choice(_np.array([7, 8]), 1, replace=True),
            R.rand(), R.rand(2), R.rand(2, 2), R.random(), R.random(3), R.random_sample((1, 2)), R.uniform(), R.uniform(1.5, 4.0),
            R.uniform(-1.0, 1.0, 3), R.randint(4), R.randint(2, 9), R.randint(0, 100, size=4), R.randint(3, size=(2, 2)),
            R.permutation(4), R.permutation(7), R.permutation(_np.array([5, 6, 7])), R.choice([1, 2, 3, 4], size=3, replace=False)]
    x = [10, 20, 30]
    R.shuffle(x)
    y = _np.arange(6)
    R.shuffle(y)
    out += [x, y]
    return out


def selftest_forwarding(seeds=(0, 1, 2)) -> int:
    """Every owned draw, forwarded, must return what numpy returns and consume numpy's stream identically.
    Also: without forwarding every value the oracle hands out lies in the support of the real draw.
    Returns the number of draws compared; raises HarnessError on any difference."""
    n = 0
    for seed in seeds:
        keep = _np.random.get_state()
        try:
            _np.random.seed(seed)
            want = _draw_script(_np.random, False)
            end = _np.random.get_state()
        finally:
            _np.random.set_state(keep)
        o = Oracle.forwarding(seed)
        got = _draw_script(_RandomProxy(o), False)
        st = o._rs.get_state()
        if not (end[0] == st[0] and end[2:] == st[2:] and _np.array_equal(end[1], st[1])):
            raise HarnessError("forwarded draws do not consume the global stream like numpy does")
        want_g = _draw_script(_np.random, True)
        got_g = _draw_script(_RandomProxy(Oracle.forwarding(seed)), True)
        for a, b in zip(want + want_g, got + got_g):
            if type(a) is not type(b) or _np.shape(a) != _np.shape(b) or not _np.array_equal(a, b) or (
                isinstance(a, _np.ndarray) and a.dtype != b.dtype
            ):
                raise HarnessError(f"forwarded draw differs from numpy: {a!r} vs {b!r}")
            n += 1
    for policy in ("first", "last", "cycle"):
        for vals in (_draw_script(_RandomProxy(Oracle((), policy)), False), _draw_script(_RandomProxy(Oracle((), policy)), True)):
            for v in vals:
                if isinstance(v, float) or (isinstance(v, _np.ndarray) and v.dtype.kind == "f"):
                    if not _np.all((_np.asarray(v) >= -2.0) & (_np.asarray(v) < 4.0)):
                        raise HarnessError(f"continuous answer outside the support: {v!r}")
    return n
