"""Deterministic generic valuations (DESIGN §4): every compartment gets a distinct value per
parameter from fixed tables spanning >= 1 decade.  Valuation 0 is the all-equal valuation."""
from __future__ import annotations

import numpy as np

RANGES = {
    "radius": (0.3, 3.0, "log"),
    "length": (2.0, 50.0, "log"),
    "axial_resistivity": (50.0, 5000.0, "log"),
    "capacitance": (0.5, 2.0, "log"),
    "g": (1e-5, 1e-3, "log"),
    "e": (-80.0, -50.0, "lin"),
    "v": (-90.0, -30.0, "lin"),
    "i": (-0.5, 0.5, "lin"),
}
EQUAL = {
    "radius": 1.0, "length": 10.0, "axial_resistivity": 5000.0, "capacitance": 1.0,
    "g": 1e-4, "e": -70.0, "v": -70.0, "i": 0.1,
}


def _frac(k: int, j: int, salt: int) -> np.ndarray:
    """Deterministic low-discrepancy fractions in (0,1): Weyl sequence with an irrational step."""
    phi = [0.6180339887498949, 0.7548776662466927, 0.5698402909980532, 0.8191725133961645,
           0.4142135623730951, 0.7320508075688772, 0.2360679774997898, 0.6457513110645906]
    a = phi[salt % len(phi)]
    x = (0.137 * (k + 1) + a * (np.arange(j) + 1) + 0.31 * salt) % 1.0
    return 0.02 + 0.96 * x


def table(name: str, n: int, valuation: int) -> np.ndarray:
    """n values of parameter `name` under valuation id (0 = all equal)."""
    if valuation == 0:
        return np.full(n, EQUAL[name], dtype=np.float64)
    lo, hi, kind = RANGES[name]
    f = _frac(valuation, n, salt=sorted(RANGES).index(name))
    if kind == "log":
        return np.exp(np.log(lo) + f * (np.log(hi) - np.log(lo)))
    return lo + f * (hi - lo)


def valuation(n: int, valuation_id: int) -> dict:
    return {k: table(k, n, valuation_id) for k in RANGES}
