"""Process-wide environment for every check and worker.

Must be imported before jax/jaxley.  Decisive runs are float64 on one CPU thread per worker;
jaxley is imported from /repo's working tree (or $VERIF_REPO when a scratch copy is checked).
"""
import os
import sys
import warnings

GUARD = "JAXLEY_VERIF"
os.environ.setdefault(GUARD, "1")
os.environ.setdefault("JAX_PLATFORMS", "cpu")
os.environ.setdefault("PYTHONHASHSEED", "0")
os.environ.setdefault("OMP_NUM_THREADS", "1")
os.environ.setdefault("OPENBLAS_NUM_THREADS", "1")
os.environ.setdefault("MKL_NUM_THREADS", "1")
os.environ.setdefault("MPLBACKEND", "Agg")
_xla = os.environ.get("XLA_FLAGS", "")
if "xla_cpu_multi_thread_eigen" not in _xla:
    os.environ["XLA_FLAGS"] = (
        _xla + " --xla_cpu_multi_thread_eigen=false intra_op_parallelism_threads=1"
    ).strip()

REPO = os.path.realpath(os.environ.get("VERIF_REPO", "/repo"))
VERIF = os.path.dirname(os.path.dirname(os.path.abspath(__file__)))
if REPO not in sys.path:
    sys.path.insert(0, REPO)

warnings.filterwarnings("ignore")

_ready = False


def setup():
    """Import jax + jaxley with x64 enabled and assert that jaxley comes from REPO."""
    global _ready
    if _ready:
        return
    import jax

    jax.config.update("jax_enable_x64", True)
    import jaxley

    src = os.path.realpath(jaxley.__file__)
    if not src.startswith(REPO + os.sep):
        raise RuntimeError(f"jaxley imported from {src}, expected under {REPO}")
    import pandas as pd

    pd.set_option("future.no_silent_downcasting", True) if False else None
    _ready = True


def nmaps() -> int:
    try:
        with open("/proc/self/maps") as f:
            return sum(1 for _ in f)
    except OSError:
        return 0


def maybe_clear_caches(limit: int = 30000):
    """Each traced scan / fresh shape leaves executables (memory mappings) behind; the sandbox caps
    mappings at 65530 per process, so workers drop jax's caches before getting close."""
    if nmaps() > limit:
        import jax
        import gc

        jax.clear_caches()
        gc.collect()
        return True
    return False


def repo_state():
    import subprocess

    try:
        head = subprocess.run(
            ["git", "-C", REPO, "rev-parse", "HEAD"], capture_output=True, text=True
        ).stdout.strip()
        dirty = bool(
            subprocess.run(
                ["git", "-C", REPO, "status", "--porcelain", "--", "jaxley"],
                capture_output=True,
                text=True,
            ).stdout.strip()
        )
    except Exception:
        head, dirty = "unknown", False
    return {"repo": REPO, "head": head, "dirty": dirty}
