#!/venv/bin/python
"""Regenerate /verif/MANIFEST.json from the table below (and validate it against the schema)."""
import json, os, sys
HERE = os.path.dirname(os.path.dirname(os.path.abspath(__file__)))
sys.path.insert(0, HERE)

BASELINE_OFF = ("cd /repo && env -u JAXLEY_VERIF /venv/bin/python -m pytest -ra -q -p no:cacheprovider --timeout=900 "
                "--continue-on-collection-errors --junitxml=/tmp/jaxley_baseline.junit.xml")

# id -> (level, technique, text, note, design_ref)
CHECKS = {}
def add(i, level, technique, text, note, ref):
    CHECKS[i] = (level, technique, text, note, ref)

exec(open(os.path.join(HERE, "tools", "manifest_table.py")).read())

def main():
    props = [json.loads(l)["id"] for l in open(os.path.join(HERE, "properties.jsonl"))]
    checks = []
    for pid in props:
        if pid not in CHECKS:
            continue
        level, technique, text, note, ref = CHECKS[pid]
        checks.append({
            "property_id": pid,
            "quick_cmd": f"./check {pid} --tier quick",
            "thorough_cmd": f"./check {pid} --tier thorough",
            "evidence_file": f"evidence/{pid}.json",
            "replay_cmd_template": f"./check {pid} --replay {{path}}",
            "engine": "vf-explorer",
            "level_claimed": {"category": level, "text": text, "design_ref": ref},
            "level_note": note,
            "technique": technique,
        })
    na = [{"property_id": p, "reason": NOT_APPLICABLE.get(p, "check not built yet in this session (planned, see DESIGN.md §7); not claimed until it exists")}
          for p in props if p not in CHECKS]
    man = {
        "version": 1,
        "setup_cmd": "/venv/bin/python -m compileall -q vf && /venv/bin/python -c \"import sys; sys.path.insert(0,'.'); from vf import env; env.setup(); print('vf ready')\"",
        "hooks": {
            "guard": "JAXLEY_VERIF",
            "enable": "no hooks were needed: every observation point is public API; checks export JAXLEY_VERIF=1 but jaxley never reads it",
            "baseline_off_cmd": BASELINE_OFF,
            "source_commits": [],
            "add_only": True,
        },
        "engines": [{
            "name": "vf-explorer",
            "path": "vf/runner.py",
            "serves_properties": [c["property_id"] for c in checks],
            "kind_free_text": "hand-written explicit-state / bounded-exhaustive explorer in Python driving the real jaxley implementation "
                              "(16 long-lived worker processes; BFS over operation histories with canonical state hashing; exhaustive enumeration of "
                              "bounded input spaces and of RNG outcome trees; independent numpy reference models)",
        }],
        "checks": checks,
        "notes": NOTES,
        "not_applicable": na,
    }
    path = os.path.join(HERE, "MANIFEST.json")
    with open(path, "w") as f:
        json.dump(man, f, indent=1)
    import jsonschema
    jsonschema.validate(man, json.load(open("/root/.vp/MANIFEST.schema.json")))
    print("MANIFEST.json written:", len(checks), "checks,", len(na), "not_applicable")

main()
