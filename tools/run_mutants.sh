#!/bin/bash
# tools/run_mutants.sh [pattern] -- run every mutants/<name>.patch against the checks named in mutants/<name>.checks (scratch worktrees)
cd /verif
for p in mutants/${1:-M}*.patch; do
  n=$(basename "$p" .patch)
  checks=$(cat mutants/$n.checks 2>/dev/null || echo "")
  W=$(mktemp -d /tmp/mutrun_XXXXXX); rmdir "$W"
  git -C /repo worktree add -q --detach "$W" HEAD || continue
  if ! git -C "$W" apply "/verif/$p"; then echo "MUTANT $n: patch does not apply"; git -C /repo worktree remove --force "$W"; continue; fi
  t=$(cd "$W" && env -u JAXLEY_VERIF /venv/bin/python -m pytest -q -p no:cacheprovider --timeout=900 -n "${MUT_N:-6}" $(cat /verif/tools/baseline_ids.txt | tr '\n' ' ') 2>&1 | tail -1)
  line="MUTANT $n: baseline [$t]"
  for c in $checks; do
    VERIF_REPO="$W" VERIF_EVIDENCE_DIR="$W/.evidence" ./check "$c" --tier quick --jobs "${MUT_JOBS:-8}" > "$W/out_$c.txt" 2>&1; rc=$?
    line="$line | $c exit=$rc viol=$(grep -c '^VIOLATION' "$W/out_$c.txt") $(grep -m1 'sig=' "$W/out_$c.txt" | cut -c1-160)"
  done
  echo "$line"
  git -C /repo worktree remove --force "$W"; rm -rf "$W"
done
