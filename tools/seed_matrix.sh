#!/bin/bash
# tools/seed_matrix.sh [pattern]  — re-runs every seeded change (seeded/S*) against its target check (from the directory name)
# plus the extra checks listed in EXTRA, on scratch worktrees, 3 at a time; writes seeded/RESULTS.txt ("which checks catch which changes").
cd /verif
declare -A EXTRA=( [S42]="C10" [S48]="C13" [S50]="C10" [S49]="C01" [S60]="C01" [S36]="C01" [S22]="C10" )
OUT=seeded/RESULTS.txt; TMP=$(mktemp)
one() { d=$1; n=$(basename $d); id=${n%%_*}; cid=$(echo $n | cut -d_ -f2); SEED_JOBS=${SEED_JOBS:-5} tools/seedrun.sh $d --no-tests $cid ${EXTRA[$id]:-} 2>&1 | grep "SEEDRUN.*\(check\|demo exit\|does not apply\)"; }
i=0
for d in seeded/${1:-S}*/; do
  one ${d%/} >> $TMP.$i &
  i=$((i+1)); if [ $((i % 3)) = 0 ]; then wait; fi
done; wait
cat $(ls $TMP.* | sort -t. -k3 -n) | sed 's/ :: .*sig=/ sig=/' | cut -c1-330 > $OUT; rm -f $TMP $TMP.*
grep -c "exit=1" $OUT
