#!/venv/bin/python
"""Generate the hand-written mutant patches in /verif/mutants/ from (file, old, new) edits against /repo HEAD."""
import os, subprocess, sys, tempfile
M = [
 # name, check ids, file, old, new
 ("M01_C01_lexsort_keys", "C01", "jaxley/utils/solver_utils.py", "sorted_indices = np.lexsort((row_ind, col_ind))", "sorted_indices = np.lexsort((col_ind, row_ind))"),
 ("M02_C15_bp_constant", "C15 C01", "jaxley/utils/cell_utils.py", "    return rad / r_a / l**2 * 10**7  # Convert (S / cm / um) -> (mS / cm^2)", "    return rad / r_a / l**2 * 10**6  # Convert (S / cm / um) -> (mS / cm^2)"),
 ("M03_C03_inf_gate_sign", "C03", "jaxley/solver_gate.py", "    slope = -1.0 / tau_s\n    exp_term = save_exp(slope * dt)\n    return x * exp_term + s_inf * (1.0 - exp_term)", "    slope = -1.0 / tau_s\n    exp_term = save_exp(slope * dt)\n    return x * (1.0 - exp_term) + s_inf * exp_term"),
 ("M04_C04_hh_h_constant", "C04", "jaxley/channels/hh.py", "alpha = 0.07 * save_exp(-(v + 65) / 20)", "alpha = 0.07 * save_exp(-(v + 65) / 18)"),
 ("M05_C05_stop_gradient_axial", "C05", "jaxley/modules/base.py", "        params[\"axial_conductances\"] = self.base._compute_axial_conductances(\n            params=params\n        )", "        import jax\n\n        params[\"axial_conductances\"] = jax.lax.stop_gradient(\n            self.base._compute_axial_conductances(params=params)\n        )"),
 ("M06_C06_externals_no_copy", "C06", "jaxley/integrate.py", "    externals = module.externals.copy()", "    externals = module.externals"),
 ("M07_C12_absent_flag_true", "C12", "jaxley/modules/base.py", "            self.base.nodes.loc[self.nodes[name].isna(), name] = False", "            self.base.nodes.loc[self.nodes[name].isna(), name] = True"),
 ("M08_C14_init_states_all_rows", "C14", "jaxley/modules/base.py", "                self.nodes.loc[channel_indices, key] = val", "                self.nodes.loc[:, key] = val if len(val) == len(self.nodes) else val[0]"),
 ("M09_C17_chain_inverse_order", "C17", "jaxley/optimize/transforms.py", "        for transform in reversed(self.transforms):", "        for transform in self.transforms:"),
 ("M10_C20_pre_offset", "C20", "jaxley/connect.py", "    global_pre_indices = pre_cell_view.base._cumsum_ncomp_per_cell[pre_syn_neurons]", "    global_pre_indices = pre_cell_view.base._cumsum_ncomp_per_cell[pre_syn_neurons + 1] - 1"),
 ("M11_C11_loc_epsilon", "C11", "jaxley/modules/base.py", "            comp_edges = np.linspace(0, 1 + 1e-10, ncomp + 1)", "            comp_edges = np.linspace(0, 1, ncomp + 1)"),
 ("M12_C08_stim_set_not_add", "C08 C02", "jaxley/modules/base.py", "        stim_at_timestep = scatter_add(zero_vec, i_inds[:, None], current, dnums)", "        stim_at_timestep = zero_vec.at[i_inds].set(current)"),
 ("M13_C09_pre_area", "C09", "jaxley/modules/network.py", "                params[\"radius\"][post_inds],\n                params[\"length\"][post_inds],", "                params[\"radius\"][pre_inds],\n                params[\"length\"][pre_inds],"),
 ("M14_C10_data_set_ignores_nan", "C10", "jaxley/modules/base.py", "                    \"indices\": np.atleast_2d(viewed_inds[not_nan]),", "                    \"indices\": np.atleast_2d(viewed_inds),"),
 ("M15_C19_delrec_view_deletes_all", "C19", "jaxley/modules/base.py", "            self.base.recordings = base_recs[\n                ~base_recs.isin(self.recordings).all(axis=1)\n            ]", "            self.base.recordings = base_recs[\n                ~base_recs[\"rec_index\"].isin(base_recs[\"rec_index\"])\n            ]"),
 ("M16_C07_all_states_ignored_gates", "C07", "jaxley/integrate.py", "            if all_states is None\n            else all_states", "            if all_states is None\n            else {**module.get_all_states(pstate, all_params, delta_t), \"v\": all_states[\"v\"]}"),
 ("M17_C13_radius_wrong_branch_fn", "C13", "jaxley/modules/base.py", "                branch_indices=branch_indices,\n                min_radius=min_radius,\n                ncomp=ncomp,", "                branch_indices=np.maximum(branch_indices - 1, 0),\n                min_radius=min_radius,\n                ncomp=ncomp,"),
 ("M18_C18_getattr_swallows_dunder", "C18", "jaxley/modules/base.py", "        if key.startswith(\"__\"):\n            return super().__getattribute__(key)", "        if key.startswith(\"__\") and key != \"__deepcopy__\":\n            return super().__getattribute__(key)"),
 ("M19_C16_soma_gap_included", "C16", "jaxley/utils/cell_utils.py", None, None),
 ("M20_C02_branchpoint_weight", "C02 C01", "jaxley/utils/cell_utils.py", "    return rad**2 / r_a / l", "    return rad / r_a / l"),
]
out = "/verif/mutants"
os.makedirs(out, exist_ok=True)
for name, checks, f, old, new in M:
    if old is None:
        continue
    w = tempfile.mkdtemp(prefix="mkmut_"); os.rmdir(w)
    subprocess.run(["git", "-C", "/repo", "worktree", "add", "-q", "--detach", w, "HEAD"], check=True)
    try:
        p = os.path.join(w, f); s = open(p).read()
        if s.count(old) != 1:
            print("SKIP", name, "pattern count", s.count(old)); continue
        open(p, "w").write(s.replace(old, new))
        d = subprocess.run(["git", "-C", w, "diff"], capture_output=True, text=True).stdout
        open(os.path.join(out, name + ".patch"), "w").write(d)
        open(os.path.join(out, name + ".checks"), "w").write(checks + "\n")
        print("ok", name)
    finally:
        subprocess.run(["git", "-C", "/repo", "worktree", "remove", "--force", w])
