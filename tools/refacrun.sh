#!/bin/bash
# tools/refacrun.sh <refactors/<name>> [CHECK-ID...]  -- apply a behaviour-preserving refactor in a scratch worktree and run checks
# against it (default: all 20 quick checks); every check must exit 0 (no false alarm).
set -u
D=$(readlink -f "$1"); shift
W=$(mktemp -d /tmp/refacrun_XXXXXX); rmdir "$W"
git -C /repo worktree add -q --detach "$W" HEAD || exit 2
trap 'git -C /repo worktree remove --force "$W" 2>/dev/null; rm -rf "$W"' EXIT
git -C "$W" apply "$D/patch.diff" || { echo "REFACRUN: patch does not apply"; exit 2; }
cd /verif
IDS=${@:-C01 C02 C03 C04 C05 C06 C07 C08 C09 C10 C11 C12 C13 C14 C15 C16 C17 C18 C19 C20}
for c in $IDS; do
  VERIF_REPO="$W" VERIF_EVIDENCE_DIR="$W/.evidence" ./check "$c" --tier quick --jobs "${REFAC_JOBS:-12}" > "$W/out_$c.txt" 2>&1; rc=$?
  echo "REFACRUN $(basename "$D"): $c exit=$rc $(grep -c '^VIOLATION' "$W/out_$c.txt") violations $(grep -c 'HARNESS-ERROR' "$W/out_$c.txt") harness :: $(grep -m1 'sig=' "$W/out_$c.txt" | cut -c1-200)"
done
