#!/bin/bash
# tools/run_baseline.sh [repo-dir] [xdist-workers]  -- runs the 117 baseline (stable_pass) tests of BASELINE.json with the hook guard OFF
R=${1:-/repo}; N=${2:-8}
cd "$R" || exit 2
env -u JAXLEY_VERIF /venv/bin/python -m pytest -q -p no:cacheprovider --timeout=900 -n "$N" $(cat /verif/tools/baseline_ids.txt | tr '\n' ' ') 2>&1 | tail -15
