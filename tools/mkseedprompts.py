"""tools/mkseedprompts.py <wave> [IDs...] — writes /tmp/seed<wave>_prompt_<ID>.txt for blind seeding agents from the wave-5 prompt
layout: property text (/verif/properties.jsonl) + one-line summaries of the changes earlier rounds already used for that property
(so that the next round does something different in kind).  Nothing about the checks themselves goes into a prompt."""
import glob, json, os, re, sys

wave = sys.argv[1]
ids = sys.argv[2:] or [f"C{i:02d}" for i in range(1, 21)]
props = {json.loads(l)["id"]: json.loads(l) for l in open("/verif/properties.jsonl")}
tmpl = open("/verif/tools/seed_prompt_template6.txt").read()
for cid in ids:
    p = props[cid]
    used = []
    for d in sorted(glob.glob(f"/verif/seeded/S*_{cid}_*")):
        try:
            used.append("- " + json.load(open(d + "/meta.json"))["summary"][:300])
        except Exception:
            pass
    anchors = p.get("anchors", {})
    mech = "; ".join(f"{m['name']} ({m['where']})" for m in anchors.get("mechanism", []))
    text = tmpl.replace("@W@", f"/tmp/seed{wave}_{cid}").replace("@ID@", cid).replace("@TITLE@", p["title"]).replace("@STATEMENT@", p["statement"])
    text = text.replace("@QUANT@", p["quantifier"]["text"]).replace("@FILES@", ", ".join(anchors.get("files", []))).replace("@MECH@", mech)
    text = text.replace("@USED@", "\n".join(used) if used else "- (none)")
    open(f"/tmp/seed{wave}_prompt_{cid}.txt", "w").write(text)
    print(cid, len(used), "earlier ideas")
