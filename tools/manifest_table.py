# Table of claimed checks; exec'd by tools/mkmanifest.py
NOTES = ("All checks are bounded-exhaustive explorations of the real implementation (model-checking family). "
         "Exit 0 = held on everything explored (KNOWN-FINDING lines for defects listed in known_findings.json), "
         "exit 1 = VIOLATION lines for unlisted violations, exit 2 = harness error. VERIF_SEED only permutes the visiting order. "
         "VERIF_JOBS limits worker processes (default 16).")
NOT_APPLICABLE = {}

add("C01", "exploration", "bounded-exhaustive enumeration of morphologies x configurations against an independent dense reference solver",
    "Every module in a stated finite scope (all parent vectors and compartment-count vectors up to the bound, networks from a cell catalogue) x "
    "valuations x dt x scheme x backend is stepped once through the real step function and compared with a dense SI-unit reference; "
    "this is the right level because the defects of the solver are index/shape bugs with tiny witnesses that a complete small scope contains.",
    "Trusts numpy.linalg.solve and the reference assembly in vf/refphys.py (cross-checked by C02 identities and C15 analytic cable theory); "
    "continuous parameters are covered by generic valuations plus the data-independence argument of DESIGN §4; shapes above the bound are not explored.",
    "DESIGN.md §7 C01")
