# Table of claimed checks; exec'd by tools/mkmanifest.py
NOTES = ("All checks are bounded-exhaustive explorations of the real implementation (model-checking family). "
         "Exit 0 = held on everything explored (KNOWN-FINDING lines for defects listed in known_findings.json), "
         "exit 1 = VIOLATION lines for unlisted violations, exit 2 = harness error. VERIF_SEED only permutes the visiting order. "
         "VERIF_JOBS limits worker processes (default 16).")
NOT_APPLICABLE = {}

add("C01", "exploration", "bounded-exhaustive enumeration of morphologies x configurations against an independent dense reference solver",
    "Every module in a stated finite scope (all parent vectors and compartment-count vectors up to the bound, networks from a cell catalogue) x "
    "valuations x dt x scheme x backend is stepped once through the real step function and compared with a dense SI-unit reference; "
    "this is the right level because the defects of the solver are index/shape bugs with tiny witnesses that a complete small scope contains.",
    "Trusts numpy.linalg.solve and the reference assembly in vf/refphys.py (cross-checked by C02 identities and C15 analytic cable theory); "
    "continuous parameters are covered by generic valuations plus the data-independence argument of DESIGN §4; shapes above the bound are not explored.",
    "DESIGN.md §7 C01")

add("C02", "exploration", "bounded-exhaustive enumeration of morphologies x time steps x backends checked against physical identities (charge balance, reciprocity over all ordered pairs, maximum principle)",
    "Every cell up to the bound x six time steps up to 1e9 ms x three backends is stepped on the real implementation and four identities that need no "
    "reference solver are evaluated; reciprocity enumerates all ordered compartment pairs. Identities cannot share an error with a reference model.",
    "Areas are the lateral cylinder areas in jaxley's documented units; generic valuations stand for all positive parameters (DESIGN §4).",
    "DESIGN.md §7 C02")

add("C09", "model_checking", "explicit-state exploration of all connect() creation histories up to depth 2-3 on real networks, each state compared with a reference simulator fed the request multiset",
    "All sequences of connect calls over an 18-edge alphabet (autapse, fan-in, same-cell, cross-cell; three synapse types) are replayed on fresh real "
    "networks; per-edge parameters go through three view APIs; two base networks make all three backends accept. States = canonical edge multisets, "
    "so order-independence is decided for every permutation inside the bound.",
    "Reference simulator vf/refsim.py mirrors the documented staggering/secant scheme (DESIGN §5 S1,S2); histories beyond depth 3 and other endpoints are not explored.",
    "DESIGN.md §7 C09")

add("C06", "model_checking", "explicit-state exploration of all integrate-call histories up to depth 2-3 plus exhaustive enumeration of checkpoint_lengths tuples and execution modes, all on the real integrate",
    "Histories of integrate calls over a 7-call alphabet are replayed from scratch on real modules; after every call the canonical module snapshot must be "
    "unchanged and the result bit-identical to the same call on a fresh module. All checkpoint_lengths tuples of a bounded family and jit/vmap modes are "
    "compared with the plain eager run.",
    "Determinism of eager CPU execution is assumed (one XLA thread per worker). Runs are 1-5 steps; tuples beyond depth 3 / entries >4 are not explored.",
    "DESIGN.md §7 C06")

add("C07", "model_checking", "exhaustive enumeration of all compositions (split histories) of an n-step run executed as chains of real integrate calls, compared with the one-shot run and a manual stepper",
    "Every composition of n=4 (5) steps into parts, for every model x scheme x backend and three checkpoint variants per segment, is executed through "
    "return_states/all_states on the real integrate; recordings and returned states are compared with the one-shot run and with init_fn/step_fn stepping.",
    "1e-8 tolerance (round-off differences between differently compiled scans are amplified through spikes at non-default dt); runs of 4-5 steps with data-fed stimulus and clamp; F6 (prod(checkpoint_lengths) > steps) was repaired in /repo (fix 3d41102).",
    "DESIGN.md §7 C07")

add("C08", "model_checking", "explicit-state exploration of all record/stimulate/clamp request histories up to depth 2-3 on a real network, integrate output compared with a reference built from the request log",
    "Every request history over a 14-request alphabet (depth 1 on all three synapse-type orders x t_max modes x stored/data-fed, depth 2-3 on the interleaved "
    "order) is replayed on a fresh real network; the complete output matrix of integrate (row order, column timing, values) is compared with a reference "
    "simulator driven by the request log only, so misplaced rows/indices cannot cancel out.",
    "Reference simulator mirrors the documented staggering; recorded currents may follow either voltage convention (weaker reading); runs are 2-6 steps.",
    "DESIGN.md §7 C08")

add("C19", "model_checking", "explicit-state BFS over editing histories (about 30 operations, depth 2-3) on real modules with canonical state hashing; invariants on every state and a tables-derived reference simulation on every distinct state",
    "Breadth-first search from three non-trivial initial states; each history is replayed from scratch on the real module; commuting histories are merged by a "
    "canonical snapshot hash; seven table invariants are evaluated in every state and integrate is compared with a reference simulator built only from the "
    "displayed tables. BFS order yields shortest counterexamples.",
    "Weaker readings of DESIGN C19 (stale references to states of channels deleted afterwards are observations); depth 2 (quick) / 3 (thorough); reference simulator vf/refsim.py.",
    "DESIGN.md §7 C19")

add("C18", "model_checking", "exhaustive visit of every distinct state of the editing state space (BFS depth 1-2 from five initial states): pickle/deepcopy round trip, simulation/gradient equality, and every alphabet operation applied to the copy",
    "For every distinct reached module state the pickle and deepcopy copies must have identical canonical snapshots (incl. xyzr), bit-identical integrate output and equal "
    "gradients; then each operation of the alphabet is applied to the copy and the original's snapshot hash must stay unchanged; SWC radius functions are exercised by "
    "set_ncomp on the unpickled copy.",
    "Determinism of eager CPU execution; states limited to the C19 alphabet plus an SWC cell and a network with trainables/clamps/groups.",
    "DESIGN.md §7 C18")

add("C10", "model_checking", "exhaustive enumeration of make_trainable call sequences (views x keys, depth 1-3) on real modules; arrays reaching the simulator compared with a reference selection semantics; set/data_set/trainable routes compared by simulation",
    "Every (view, key) of a 12x6 table on two modules and all pairs (triples in thorough) of them are executed with the real make_trainable; the arrays produced by the real "
    "init_fn are compared row by row with a documented-semantics reference (selection, NaN skipping, sharing rule, later-call-wins), rows outside the selection must be "
    "bit-unchanged; single calls also compare set vs data_set vs trainable simulations and write_trainables.",
    "Sharing rule per view kind taken from the documentation; two fixed modules; histories deeper than 3 not explored.",
    "DESIGN.md §7 C10")

add("C12", "exploration", "bounded-exhaustive enumeration of heterogeneous assemblies (all branches/cells/networks over small constituent alphabets) with table-concatenation and alone-vs-assembled differential oracles",
    "All branches up to length 2-3 over a 5-compartment alphabet, all cells with up to 3 branches over a 3-branch alphabet and every parent vector, and all ordered pairs/triples "
    "of a 4-cell catalogue are assembled with the real constructors; the assembled table must be the concatenation of the constituents (NaN/False where a channel is absent) and "
    "three eager steps on every accepting backend must equal the parts simulated alone; sibling and cell permutations must only permute results.",
    "Differential oracles inside the implementation (no expected values); constituents drawn from a fixed alphabet; initial voltages below -20 mV.",
    "DESIGN.md §7 C12")

add("C17", "exploration", "exhaustive evaluation of every transform configuration over float lattices containing all special points and ulp-neighbourhoods (thorough: every float32 in [-100,100]) against bounds/monotonicity/conditioning-aware round-trip rules",
    "222 transform configurations (singles, all ordered chains, all masks) x lattices on [-1e6,1e6] with ±64-ulp neighbourhoods of 0, ±20 and saturation points in f64 and f32, "
    "ParamTransform over all assignments of transforms to three pytree shapes, eager vs jit. Each item also runs a numerically stable reference twin through the same rules as a "
    "guard against an unsatisfiable oracle.",
    "Float64 points between lattice points away from special points are not visited; tolerance rule of DESIGN §5 (K=256) with a flush-to-zero floor.",
    "DESIGN.md §7 C17")

add("C13", "model_checking", "explicit-state BFS over set_ncomp(branch, n) histories (depth 2-3) on three real cells; every reached state compared with direct construction (tables + simulation on all backends); path independence over all histories reaching one compartment vector",
    "All histories of set_ncomp calls (every branch, n in {1,2,3(,4)}) from a hand-built cell with channels and groups, a passive one, and an SWC cell are replayed on the real "
    "module; each state is compared with a directly built module / read_swc with that n, group-to-branch membership and untouched branches are checked, and all states sharing "
    "a compartment vector must have one canonical snapshot.",
    "Tables compared up to round-off (1e-12); refusals of set_ncomp (single-compartment branch with channels) are allowed; depth 3.",
    "DESIGN.md §7 C13")

add("C03", "exploration", "exhaustive evaluation of every gate update kernel over dyadic voltage lattices plus all floats within ±64 ulp of every singular/clip voltage (thorough: every float32 in [-200,200]) x dt x state x parameter alphabets against the closed-form exponential update of reference kinetics",
    "Every mechanism x 16 kinetic parameter settings x ~8k voltages (all singular voltages exactly and their float64/float32 ulp-neighbourhoods) x 6 time steps x 6 states through "
    "the real update_states in float64 (all rules) and float32 (qualitative rules); thorough sweeps all 2.26e9 float32 voltages of the interval.",
    "Reference kinetics vf/refkin.py typed from the publications; float64 voltages between lattice points away from special points are not visited.",
    "DESIGN.md §7 C03")

add("C04", "exploration", "exhaustive comparison of rate functions, propagators, currents, defaults and change_name key maps of every built-in mechanism with published kinetics over the same lattices",
    "Steady states and one-step propagators (6 dt) through two routes (gate functions and black-box update_states), currents over all state/conductance/reversal combinations, "
    "exact default tables, and 114 rename chains per mechanism with bitwise-equal dynamics under the key map.",
    "Published equations as typed into vf/refkin.py (HH 1952 / NEURON hh.mod at 6.3 C, Pospischil 2008, Abbott & Marder 1998); Pospischil defaults are those documented in jaxley's classes.",
    "DESIGN.md §7 C04")

add("C14", "exploration", "exhaustive enumeration of partial insertions (all non-empty subsets, channel pairs sharing parameters, renamed channels) x voltage/parameter alphabets through the real init_states, checked with the channel's own update as fixed-point oracle",
    "413 real modules (every insertion subset of a 3-compartment branch for 17 channel configurations, 49 subset pairs for 6 channel pairs) plus kernel-level and long-branch sweeps of "
    "the whole [-120,60] lattice; after the real init_states() one real update_states at the same voltage may move no gate by more than 1e-12 for three time steps; untouched rows/columns compared exactly.",
    "Oracle is the implementation's own update rule (no reference kinetics); fixed list of voltage triples at module level, full lattice at kernel level.",
    "DESIGN.md §7 C14")

add("C05", "exploration", "bounded-exhaustive enumeration of (model x trainable kind x scheme x backend x checkpoint layout) with jax.grad through the real integrate compared against converged central finite differences in float64",
    "26 trainable kinds on three models (incl. initial voltages exactly at rate-function singularities, synaptic states, parameters shared over groups of unequal size, data-fed "
    "stimulus amplitudes and data_set values) crossed with schemes, backends and checkpoint layouts (quick: each kind once + full cross for four representative kinds; thorough: full product).",
    "5-step runs, quadratic losses; finite differences at two step sizes must agree to 1e-6 or the configuration is reported inconclusive.",
    "DESIGN.md §7 C05")

add("C15", "exploration", "exhaustive enumeration of a cable geometry/parameter alphabet x refinement ladders (ncomp 4..64, dt 0.5..1/32) x backends x schemes, observed convergence orders against closed-form cable theory",
    "16 sealed cables x 5-rung spatial ladders on every backend against the steady-state Green's function at every compartment centre, 5-rung temporal ladders for RC relaxation "
    "with all three schemes, and steady state under constant current against I/(gA) for the unit constants.",
    "A finite ladder is evidence of the limit only; order windows +-0.3 (space) / +-0.1 (time) on the last two rungs and an absolute accuracy bound at the finest rung.",
    "DESIGN.md §7 C15")

add("C11", "model_checking", "exhaustive enumeration of selection chains (transition sequences over views: level steps x index forms x scope modes, loc, select, group/channel/synapse-type attributes, edge) on real modules against a set-comprehension reference; every mutator applied through every small view with a snapshot diff",
    "Part A: every chain up to the hierarchy depth over tiered step alphabets (quick 6.9k, thorough 81k chains) on four modules; node ids in order, dense local ranks, edges with both ends in view, "
    "refusal iff the reference set is empty, lazy [] and iteration agree. Part B: 13 mutators through every depth<=2 view on a fresh deepcopy, canonical snapshot diff confined to the view's rows.",
    "Weaker readings (loc on a boundary, masks only where unambiguous, [] / iteration raising on a non-level view is a refusal); modules up to 2 cells / 5 branches / 9 compartments.",
    "DESIGN.md §7 C11")

add("C16", "exploration", "exhaustive enumeration of all depth-first-ordered SWC point trees up to 6 (quick) / 8 (thorough) points x soma forms x type patterns x reader options, real read_swc against a reference reader written from the documented conventions",
    "Every Catalan tree up to the bound x {single-point, 3-point soma with neurites on any soma point} x four neurite type patterns x 12 option settings (ncomp, max_branch_len, min_radius) is written "
    "to a file and read with the real read_swc; branch count, parent relation up to isomorphism, per-branch length, radii at compartment centres, type groups and the splitting contract are "
    "compared with vf/refswc.py, and lengths/connectivity must be invariant under ncomp.",
    "One generic geometry valuation (fixed formulas); branch order and cut positions of max_branch_len are undocumented and compared up to isomorphism / by contract; junction branches are contracted.",
    "DESIGN.md §7 C16")

add("C20", "model_checking", "stateless DFS over the complete tree of RNG answers (choice oracle replacing numpy/pandas sampling inside the connectivity builders), with a deviation bound beyond a stated size, each outcome checked on the real builder's edge table",
    "The only nondeterminism of fully_connect / sparse_connect / connectivity_matrix_connect (numpy binomial/choice, pandas group sampling) is owned by a choice oracle; every path of the outcome tree is replayed on the real "
    "builder (all boolean matrices up to 3x3, population sizes 1-3 equal/different/overlapping, p in {0, 0.5, 1}, every binomial answer) and the resulting (pre cell, post cell) multiset, pre/post sites and table "
    "well-formedness are checked. The harness asserts that numpy's global RNG state is untouched (no unowned nondeterminism).",
    "Trees beyond the stated caps are explored within a deviation bound (<=2/<=1 non-default answers; default path only for most 3x3 matrices in quick) — exhaustive=false is reported; populations above 3 cells not explored.",
    "DESIGN.md §7 C20")


# ---- families added while the checks were hardened against seeded changes (DESIGN.md §15.4); appended to the level text
def extend(i, more):
    level, technique, text, note, ref = CHECKS[i]
    CHECKS[i] = (level, technique, text + " Added later: " + more, note, ref)


extend("C01", "shapes with 5-6 branches and unsorted parents, single-parameter edit sequences after a simulation, a jaxpr taint monitor for the data-independence assumption.")
extend("C02", "the explicit step (fwd_euler) on unbranched modules, with the membrane currents taken at the old voltages.")
extend("C03", "a slow unbinding rate (k_minus = 1e-3) in the kinetic alphabet.")
extend("C04", "rename chains on customised instances; init_state under the key map; the numpy route (one writable voltage/state array handed to init_state, update_states and compute_current in a row: inputs untouched, equal to the jax-array route).")
extend("C05", "compartments with length == 2*radius (ball somata) as stimulated, trainable and postsynaptic compartments; chunked simulations whose loss reads a second integrate call continued from returned states (over-long checkpoint layout).")
extend("C06", "integrate / one edit of a 21-edit alphabet / integrate against edit / integrate (hidden state left by integrate); non-default dt; an unbranched stiff cable with the explicit solver through all modes, histories and checkpoint layouts.")
extend("C07", "non-default dt; a clamp on a synaptic state of the second synapse type; a model without any external input (run length from t_max); a channel whose update reads a membrane current; the caller's all_states dict compared before/after every call.")
extend("C08", "mixed stored and data-fed inputs; deletions through views between inputs (survivors keep their own targets).")
extend("C09", "many-edge type interleavings; every history also with each edge customised right after its own connect; the same network silenced through type views after a simulation and simulated again.")
extend("C10", "explicit init_val forms; set between simulation and write_trainables; data_set through the original view; non-ascending selections grouped by a child level; the same param_state/params objects passed twice and compared before/after; chained overlapping data_set calls.")
extend("C11", "a network whose channel was inserted before assembly (object-dtype flag column); views held while the module is edited through another view, then used as mutators.")
extend("C13", "set_ncomp with min_radius (cap per branch according to its last call, also when n is unchanged); a group registered from a non-ascending selection.")
extend("C15", "every rung of a ladder is judged; cables built as 2- and 4-branch cells with c_m != 1 and as two branches with unequal compartments at the junction; dt ladders for the relaxation of a voltage profile on 4-compartment cables against the exact semi-discrete solution.")
extend("C16", "a long-section family crossing the 10-piece limit; type patterns 'first listed child differs' and 'type 0 between two types'; a 3-point soma chain along the last children (neurites at inner soma points listed before the soma continues).")
extend("C17", "ParamTransform with duplicate keys and plain arrays; the numpy route (forward/inverse twice on one writable array; two entries sharing one leaf).")
extend("C18", "coordinate-editing operations; copies of views (pickle, deepcopy, .copy()) incl. make_trainable/set through the copy; copies used after the original was garbage-collected; every initial state saved and loaded in a fresh interpreter; originals built from scratch (never from a deep copy); groups sharing one index array.")
extend("C19", "six initial states (heterogeneous pre-assembled network, uniform cell on which set_ncomp is accepted, network with recordings/stimuli/clamps of membrane and synaptic states in non-ascending order); frame invariants I8 (deletions through views, incl. alignment of surviving data rows), I10 (delete_channel through a view), I11 (connect), I12 (groups after set_ncomp).")
extend("C20", "numpy.random.rand/uniform/randint/permutation owned by the oracle; a 12-cell network with populations around cell index 8 and structured 4x4 matrices.")
extend("C05", "gradients w.r.t. the samples of a data-fed stimulus, several of them exactly zero.")
extend("C17", "a float32/float16 call on an instance followed by float64 (the instance must behave like a fresh one).")
extend("C18", "coordinate edits that recompute the centres in .nodes, applied to copy and original and compared.")
extend("C20", "column-major and transposed-view connectivity matrices.")
extend("C12", "a compartment with two user channels coupled through a declared shared state, inserted in non-alphabetical order (channel update order must survive assembly).")
extend("C14", "channels inserted into further compartments of an already initialised module, then init_states again.")
