#!/bin/bash
# tools/mutate.sh <patch-file> <check-id> [tier] [--tests "<pytest args>"]
# Applies a patch to a scratch worktree of /repo (never to /repo itself), runs the given check against it
# through VERIF_REPO, reports whether the check fired, and removes the worktree.
set -u
PATCH=$(readlink -f "$1"); CID=$2; TIER=${3:-quick}
W=$(mktemp -d /tmp/mut_XXXXXX)
rmdir "$W"
git -C /repo worktree add -q --detach "$W" HEAD || exit 2
cleanup() { git -C /repo worktree remove --force "$W" 2>/dev/null; rm -rf "$W"; }
trap cleanup EXIT
if ! git -C "$W" apply "$PATCH"; then echo "MUTATE: patch does not apply"; exit 2; fi
cd /verif
if [ "${MUT_TESTS:-}" != "" ]; then
  (cd "$W" && /venv/bin/python -m pytest -q -p no:cacheprovider -x $MUT_TESTS 2>&1 | tail -3)
fi
VERIF_REPO="$W" VERIF_EVIDENCE_DIR="$W/.evidence" ./check "$CID" --tier "$TIER" --jobs "${MUT_JOBS:-8}" > "$W/out.txt" 2>&1
rc=$?
grep -E "^(VIOLATION|KNOWN-FINDING|HARNESS-ERROR|\[C)" "$W/out.txt" | head -${MUT_LINES:-6}
echo "MUTATE: patch=$(basename "$PATCH") check=$CID tier=$TIER exit=$rc"
exit 0
