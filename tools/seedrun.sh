#!/bin/bash
# tools/seedrun.sh <seeded/<name>> [--no-tests] <CHECK-ID>...
# Verifies a seeded change in a scratch worktree of /repo (never in /repo): demo passes without and fails with the patch,
# the 117 baseline tests pass with it, and reports which of the given checks raise a VIOLATION against it.
set -u
D=$(readlink -f "$1"); shift
TESTS=1; if [ "${1:-}" = "--no-tests" ]; then TESTS=0; shift; fi
W=$(mktemp -d /tmp/seedrun_XXXXXX); rmdir "$W"
BASE=HEAD; [ -f "$D/base" ] && BASE=$(cat "$D/base")
git -C /repo worktree add -q --detach "$W" "$BASE" || exit 2
echo "SEEDRUN $(basename "$D"): base commit $BASE"
cleanup() { git -C /repo worktree remove --force "$W" 2>/dev/null; rm -rf "$W" "${W}_demo.py" "${W}_demo.out"; }
trap cleanup EXIT
mkdir -p "$W/seed_demo"; DEMO="$W/seed_demo/demo.py"; sed "s|/tmp/seed_[A-Za-z0-9_]*|$W|g" "$D/demo.py" > "$DEMO"
run_demo() { (cd "$W" && PYTHONPATH="$W" timeout 1800 /venv/bin/python "$DEMO" > "${W}_demo.out" 2>&1; echo $?); }
r0=$(run_demo)
if ! git -C "$W" apply "$D/patch.diff"; then echo "SEEDRUN: patch does not apply to HEAD"; exit 2; fi
r1=$(run_demo)
echo "SEEDRUN $(basename "$D"): demo exit without patch=$r0 with patch=$r1"
if [ $TESTS = 1 ]; then
  t=$(cd "$W" && env -u JAXLEY_VERIF /venv/bin/python -m pytest -q -p no:cacheprovider --timeout=900 -n "${SEED_N:-8}" $(cat /verif/tools/baseline_ids.txt | tr '\n' ' ') 2>&1 | tail -1)
  echo "SEEDRUN $(basename "$D"): baseline tests with patch: $t"
fi
cd /verif
for CID in "$@"; do
  VERIF_REPO="$W" VERIF_EVIDENCE_DIR="$W/.evidence" ./check "$CID" --tier "${SEED_TIER:-quick}" --jobs "${SEED_JOBS:-10}" > "$W/out_$CID.txt" 2>&1
  rc=$?
  nv=$(grep -c "^VIOLATION" "$W/out_$CID.txt")
  echo "SEEDRUN $(basename "$D"): check $CID exit=$rc violations=$nv :: $(grep -m1 "sig=" "$W/out_$CID.txt" | cut -c1-260)"
  if [ $rc -ne 0 ] && [ $nv -eq 0 ]; then grep -E "HARNESS|Error" "$W/out_$CID.txt" | head -3; fi
done
