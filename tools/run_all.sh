#!/bin/bash
# tools/run_all.sh [tier] [ids...]  -- run checks sequentially, one summary line each; exit 1 if any check did not exit 0
cd "$(dirname "$(readlink -f "$0")")/.." || exit 2; TIER=${1:-quick}; shift
IDS=${@:-C01 C02 C03 C04 C05 C06 C07 C08 C09 C10 C11 C12 C13 C14 C15 C16 C17 C18 C19 C20}
bad=0
for c in $IDS; do
  s=$(date +%s)
  ./check $c --tier $TIER > /tmp/run_all_${TIER}_$c.log 2>&1; rc=$?
  e=$(date +%s)
  echo "$c rc=$rc wall=$((e-s))s $(grep -E "^\[$c\]" /tmp/run_all_${TIER}_$c.log | sed 's/evidence=.*//') $(grep -c '^VIOLATION' /tmp/run_all_${TIER}_$c.log) violation-lines $(grep -c '^KNOWN-FINDING' /tmp/run_all_${TIER}_$c.log) known $(grep -c 'HARNESS-ERROR' /tmp/run_all_${TIER}_$c.log) harness"
  [ $rc -ne 0 ] && bad=1
done
exit $bad
