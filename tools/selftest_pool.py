"""Self-test of the runner's worker pool: a dying worker must neither hang map() nor lose an item."""
import os, sys, tempfile, importlib
sys.path.insert(0, "/verif")
from vf import runner

def main():
    mod = importlib.import_module("vf.checks.c00selftest")
    d = tempfile.mkdtemp()
    ctx = runner.Ctx(mod, "quick", 0, 4)
    items = [{"i": i} for i in range(40)]
    items[7]["die_once"] = os.path.join(d, "m7")
    items[23]["die_once"] = os.path.join(d, "m23")
    res = ctx.map("work", items)
    assert len(ctx.digests) == 40 and not ctx.errors, (len(ctx.digests), ctx.errors[:2])
    assert ctx.notes.get("worker_pool_restarts", 0) >= 1
    ctx.close()
    ctx = runner.Ctx(mod, "quick", 0, 4)
    items = [{"i": i} for i in range(10)]
    items[3]["die_always"] = True
    res = ctx.map("work", items)
    assert ctx.errors and len(ctx.errors) >= 1, ctx.errors
    ctx.close()
    print("pool self-test ok: restarts handled, lost items reported as harness errors:", len(ctx.errors))


if __name__ == "__main__":
    main()
